"""C05 — stream filters decode what standard encoders produce.

Decided (structure): filter-name tables (reader, writer, spec), decode dispatch by role, chain
order and /Filter[i]-/DecodeParms[i] pairing, byte classes of the ASCIIHex / ASCII85 / RunLength
decoders and of the PNG predictor tags against ISO 32000-1, the predictor threshold, which
neighbours each PNG row filter reads, which decode parameters are read at all.
Not decided: that the bytes produced equal the original (arithmetic of un-prediction, ASCII85
tail maths, everything inside libflate / weezl / jpeg-decoder).
"""
import json
import os
import facts as F
from cfg import CFG
from flow import Flow, call_sites, arg_local, last_seg, PASS_LAST
from tables import str_arms, exclusive_regions, enum_switches, region_aggregates, region_calls, transitive_callees
from byteclass import outcome_partition, classify, arg_subject, ret_shape, fmt_set, FULL, shape, predicate_sets
from sym import PathSym, walk, strip, show

SPEC = json.load(open(os.path.join(os.path.dirname(os.path.abspath(__file__)), "..", "spec", "iso32000.json")))
SF = "enc::StreamFilter"

DEC_ROLES = {
    "ASCIIHexDecode": ("hex", lambda ns: "enc::decode_nibble" in ns),
    "ASCII85Decode": ("a85", lambda ns: "enc::word_85" in ns or "enc::sym_85" in ns),
    "LZWDecode": ("lzw", lambda ns: any(n.startswith("weezl::decode") for n in ns)),
    # both framings the property names: zlib (RFC 1950) and, as the fallback, raw deflate
    "FlateDecode": ("flate", lambda ns: any("libflate::zlib::Decoder" in n for n in ns) and any("libflate::deflate::Decoder" in n for n in ns)),
    "DCTDecode": ("dct", lambda ns: any(n.startswith("jpeg_decoder::") for n in ns)),
    "RunLengthDecode": ("runlength", None),
}

# the bodies whose byte classes rule_bytes tabulates (a renamed body is re-identified by its shape, rules/anchor_profiles.json)
DEC_BODIES = {"ASCIIHexDecode": "enc::decode_hex", "ASCII85Decode": "enc::decode_85", "RunLengthDecode": "enc::run_length_decode"}


def filter_name_reader(ctx, f):
    b = f.body("enc::StreamFilter::from_kind_and_params")
    if b is None:
        ctx.lost("C05-SIB", "enc::StreamFilter::from_kind_and_params")
        return {}
    cfg = CFG(b)
    arms = str_arms(b)
    regs = exclusive_regions(cfg, {a["const"]: a["true_bb"] for a in arms})
    table = {}
    for a in arms:
        vs = {s[2][1]["variant"] for r, s in region_aggregates(b, regs[a["const"]], SF)}
        table[a["const"]] = sorted(vs)
    return table


def filter_name_writer(ctx, f):
    out = {}
    vs = {v["vi"]: v["name"] for v in f.adts[SF]["variants"]}
    found = 0
    for b in f.bodies.values():
        if "to_pdf_stream::{closure" not in b["id"]:
            continue
        sws = enum_switches(b, SF, f)
        if not sws:
            continue
        cfg = CFG(b)
        for (i, pl, arms, other) in sws:
            regs = exclusive_regions(cfg, {vs[k]: tg for k, tg in arms.items()})
            for vn, reg in regs.items():
                for r in reg | {arms[[k for k in arms if vs[k] == vn][0]]}:
                    for s in b["blocks"][r]["stmts"]:
                        if s[0] == "assign" and s[2][0] == "use":
                            c = F.const_str(s[2][1])
                            if c is not None:
                                out.setdefault(vn, set()).add(c)
                                found += 1
    return {k: sorted(v) for k, v in out.items()}


def rule_names(ctx, f):
    ctx.rule("C05-SIB", "filter names: the reader's name->variant table equals the ISO 32000 filter list, each name builds the variant "
             "of the same name, and the writer's variant->name table is its inverse")
    r = filter_name_reader(ctx, f)
    w = filter_name_writer(ctx, f)
    ctx.floor("C05-SIB", len(r), 10, "reader filter-name arms")
    ctx.floor("C05-SIB", len(w), 10, "writer filter-name arms")
    for name in SPEC["filters"]:
        got = r.get(name)
        ctx.check(got == [name], "C05-SIB", "from_kind_and_params#" + name,
                  "filter name /%s builds %s (spec: the filter of that name)" % (name, got), detail="/%s -> StreamFilter::%s" % (name, name))
    for name in sorted(set(r) - set(SPEC["filters"])):
        ctx.bad("C05-SIB", "from_kind_and_params#extra=" + name, "reader accepts a filter name that is not in ISO 32000-1 table 6: /%s" % name)
    for vn, names in sorted(w.items()):
        ctx.check(names == [vn], "C05-SIB", "to_pdf_stream#" + vn, "writer names StreamFilter::%s as %s" % (vn, names), detail="%s -> /%s" % (vn, vn))


def rule_dispatch(ctx, f):
    ctx.rule("C05-TABLE-dec", "enc::decode dispatches every implemented filter variant to the decoder of that format "
             "(identified by role: the helper / library it is built on)")
    b = f.body("enc::decode")
    if b is None:
        ctx.lost("C05-TABLE-dec", "enc::decode")
        return {}
    cfg = CFG(b)
    vs = {v["vi"]: v["name"] for v in f.adts[SF]["variants"]}
    sws = enum_switches(b, SF, f)
    if not ctx.floor("C05-TABLE-dec", len(sws), 1, "switch on the filter variant in enc::decode"):
        return {}
    i, pl, arms, other = sws[0]
    regs = exclusive_regions(cfg, dict({vs[k]: tg for k, tg in arms.items()}, **{"_": other}))
    table = {}
    for vn, reg in regs.items():
        if vn == "_":
            continue
        cs = [t for r, t in region_calls(b, reg) if t.get("resolved_local") and f.body(t.get("resolved"))]
        table[vn] = [t["resolved"] for t in cs]
    for vn, (role, pred) in DEC_ROLES.items():
        callee = table.get(vn, [])
        if len(callee) != 1:
            ctx.bad("C05-TABLE-dec", "enc::decode#" + vn, "filter %s is not dispatched to exactly one decoder: %s" % (vn, callee), b["span"])
            continue
        cb = f.body(callee[0])
        if pred is None:
            # run-length: recognised by its byte classes (checked in rule_runlength)
            ok = any(F.const_int(o) == 257 for i2, j2, s in F.stmts(cb) if s[0] == "assign" and s[2][0] == "binop" for o in (s[2][2], s[2][3]))
        else:
            ok = pred(transitive_callees(f, cb, depth=2))
        ctx.check(ok, "C05-TABLE-dec", "enc::decode#" + vn,
                  "filter %s is dispatched to %s, which is not a %s decoder" % (vn, callee[0], role), b["span"],
                  detail="%s -> %s (%s)" % (vn, callee[0], role))
        # the byte classes of these decoders are tabulated on named bodies (C05-TABLE): the body the filter is dispatched to must be that one
        want_body = DEC_BODIES.get(vn)
        if want_body is not None:
            ctx.check(callee[0] == want_body or want_body in transitive_callees(f, cb, depth=2), "C05-TABLE-dec", "enc::decode#" + vn + ".analysed", "filter %s is dispatched to %s, but the byte classes (digits, white-space, EOD, "
                      "padding) are established for %s: the decoder in use is not the one whose table was checked" % (vn, callee[0], want_body), b["span"],
                      detail="%s -> %s, the body tabulated by C05-TABLE" % (vn, want_body))
    return table


def rule_chain(ctx, f):
    ctx.rule("C05-G-chain", "filters are applied in stream order (forward iteration of the filter list), each on the previous output")
    n = 0
    for b in f.bodies.values():
        ds = call_sites(b, lambda nm, t: nm == "enc::decode")
        if not ds:
            continue
        cfg = CFG(b)
        fl = Flow(b)
        loops = cfg.loops()
        for bi, t in ds:
            if not any(bi in blk for blk in loops.values()):
                # a single application: fine for one given filter, not for an element picked out of the stream's filter list
                fa = arg_local(t, 1)
                picks = sorted({last_seg(a[1]) for a in fl.origins(fa) if a[0] == "call" and last_seg(a[1]) in ("first", "last", "get", "index", "next", "iter", "into_iter")}) if fa is not None else []
                ctx.check(not picks, "C05-G-chain", b["id"] + "#whole-chain", "enc::decode is applied once, to a filter picked out of a list (%s), and not in a loop over the "
                          "list: the rest of the chain is never applied" % ", ".join(picks), t["span"], detail="every filter of the list is applied")
                continue
            n += 1
            fl_arg = arg_local(t, 1)
            ats = fl.origins(fl_arg)
            tys = " ".join(a[3].get("callee_full", "") + " " + a[3].get("resolved_full", "") for a in ats if a[0] == "call")
            fwd = "slice::Iter<'_, enc::StreamFilter>" in tys and "Rev<" not in tys and "next_back" not in tys
            ctx.check(fwd, "C05-G-chain", b["id"] + "#forward",
                      "the filter list is not iterated front to back", t["span"], detail="for filter in filters (slice::Iter, no Rev)")
            dl = arg_local(t, 0)
            dats = fl.origins(dl)
            from_prev = any(a[0] == "call" and a[1] == "enc::decode" for a in dats)
            ctx.check(from_prev, "C05-G-chain", b["id"] + "#threaded",
                      "a filter is not applied to the previous filter's output", t["span"], detail="data = decode(&data, filter)")
    ctx.floor("C05-G-chain", n, 3, "filter loops (Storage::decode, Stream::data, raw_image_data)")


def rule_pairing(ctx, f):
    ctx.rule("C05-G-pair", "/Filter[i] is paired with /DecodeParms[i]: the parameter lookup index is the enumeration index of the same iteration")
    b = f.impl_method("object::Object", "object::stream::StreamInfo<T>", "from_primitive")
    if b is None:
        ctx.lost("C05-G-pair", "<StreamInfo<T> as Object>::from_primitive")
        return
    # the pairing loop may be written as `for (i, filter) in ..enumerate()` or as `.enumerate().map(|(i, filter)| ..)`
    # ... or in a private helper that is handed the list and a closure looking the parameters up (`build_filters(&filters, |i| ..get(i).., r)`)
    sites = []
    from inline import inlined
    for body in f.with_closures(b["id"]):
        if body is b:
            body = inlined(f, b)
        for bi, t in call_sites(body, lambda nm, t: last_seg(nm) == "from_kind_and_params"):
            sites.append((body, bi, t))
    ctx.floor("C05-G-pair", len(sites), 2, "from_kind_and_params call sites (filters, file filters)")
    # /DecodeParms [null << .. >>]: the i-th entry may be null for a filter without parameters - the list is read as optional dictionaries
    bfl = Flow(b)
    got = None
    for bi, t in F.calls(b):
        if t.get("callee") == "object::Object::from_primitive" and t["args"] and F.op_local(t["args"][0]) is not None:
            ks = [a[1]["str"] for a in bfl.origins(F.op_local(t["args"][0])) if a[0] == "const" and isinstance(a[1], dict) and "str" in a[1]]
            for a in bfl.origins(F.op_local(t["args"][0])):
                if a[0] == "call" and last_seg(a[1]) in ("remove", "get") and len(a[3]["args"]) > 1:
                    k0 = F.const_str(a[3]["args"][1])
                    if k0 is None and F.op_local(a[3]["args"][1]) is not None:
                        k1 = [x[1]["str"] for x in bfl.origins(F.op_local(a[3]["args"][1])) if x[0] == "const" and isinstance(x[1], dict) and "str" in x[1]]
                        k0 = k1[0] if len(k1) == 1 else None
                    if k0:
                        ks.append(k0)
                if a[0] == "call" and last_seg(a[3].get("callee") or "") in ("call", "call_mut", "call_once") and len(a[3]["args"]) == 2 and F.op_local(a[3]["args"][1]) is not None:
                    # a local closure that is handed the key (`take_or_null("DecodeParms")`)
                    for d_ in bfl.defs.get(F.op_local(a[3]["args"][1]), []):
                        if d_[0] == "assign" and d_[2][0] == "aggregate":
                            for o_ in d_[2][2]:
                                if F.const_str(o_):
                                    ks.append(F.const_str(o_))
                                elif F.op_local(o_) is not None:
                                    ks += [x[1]["str"] for x in bfl.origins(F.op_local(o_)) if x[0] == "const" and isinstance(x[1], dict) and "str" in x[1]]
            if "DecodeParms" in ks:
                got = (t.get("self_ty") or {}).get("s", "")
    ctx.check(got is not None and "Option<primitive::Dictionary>" in got and got.startswith("std::vec::Vec<"), "C05-G-pair", b["id"] + "#params-optional", "/DecodeParms is read as %s: a "
              "null placeholder for a filter without parameters makes the whole stream unreadable (or shifts the parameters to another filter)" % (got or "?"), b["span"],
              detail="Vec<Option<Dictionary>>")
    keys = {}
    for k, (body, bi, t) in enumerate(sites):
        fl = Flow(body)
        name_l = arg_local(t, 0)
        par_l = arg_local(t, 1)
        if body["kind"] == "Closure":
            # closure over one enumerate() step: the index and the filter name are both parts of the closure's own parameter
            gets = [a for a in fl.origins(par_l) if a[0] == "call" and last_seg(a[1]) == "get" and "slice" in a[1]]
            okc = False
            whyc = "no slice::get in the parameter's provenance"
            for g in gets:
                il = arg_local(g[3], 1)
                ia = fl.origins(il) if il is not None else []
                na = fl.origins(name_l) if name_l is not None else []
                okc = any(a[0] == "arg" and a[1] == 2 for a in ia) and any(a[0] == "arg" and a[1] == 2 for a in na) and not [a for a in ia if a[0] == "const"]
                whyc = "index from the closure parameter: %s, name from the closure parameter: %s" % (any(a[0] == "arg" and a[1] == 2 for a in ia), any(a[0] == "arg" and a[1] == 2 for a in na))
            par = f.bodies.get(body.get("parent") or "")
            enum = par is not None and any(last_seg(F.callee_name(pt)) == "enumerate" for _, pt in F.calls(par))
            ctx.check(okc and enum, "C05-G-pair", b["id"] + "#pair-%d" % k, "filter and decode parameters are not taken at the same index: " + whyc, t["span"],
                      detail="params = decode_params.get(i) with (i, filter) from one enumerate() step")
            continue
        nexts_name = {a[2] for a in fl.origins(name_l) if a[0] == "call" and last_seg(a[1]) == "next"}
        gets = [a for a in fl.origins(par_l) if a[0] == "call" and last_seg(a[1]) == "get" and "slice" in a[1]]
        ok = False
        why = "no slice::get in the parameter's provenance"
        for g in gets:
            il = arg_local(g[3], 1)
            iats = fl.origins(il, passthrough=()) if il is not None else []
            # the index must come (by copies) from the payload of the same next() call
            idx_next = set()
            consts = [a for a in iats if a[0] == "const"]
            for a in fl.origins(il) if il is not None else []:
                if a[0] == "call" and last_seg(a[1]) == "next":
                    idx_next.add(a[2])
            ok = bool(idx_next) and idx_next == nexts_name and not consts
            why = "index from next@%s, name from next@%s, constants %d" % (sorted(idx_next), sorted(nexts_name), len(consts))
        if not gets:
            # the parameters are produced by a closure called with the index: `params_at(i)` with `|i| match decode_params.get(i) {..}`
            for a in fl.origins(par_l) if par_l is not None else []:
                if not (a[0] == "call" and last_seg(a[1]) == "call" and len(a[3]["args"]) == 2):
                    continue
                cl = arg_local(a[3], 0)
                cbs = [f.body(x[1]["closure"]) for x in (fl.origins(cl) if cl is not None else []) if x[0] == "agg" and x[1].get("k") == "closure"]
                tl = arg_local(a[3], 1)
                idx_next, consts = set(), []
                for d in fl.defs.get(tl, []) if tl is not None else []:
                    if d[0] == "assign" and d[2][0] == "aggregate" and d[2][1].get("k") == "tuple":
                        for o in d[2][2]:
                            ol = F.op_local(o)
                            consts += [1] if ol is None else [x for x in fl.origins(ol, passthrough=()) if x[0] == "const"]
                            idx_next |= {x[2] for x in (fl.origins(ol) if ol is not None else []) if x[0] == "call" and last_seg(x[1]) == "next"}
                inner = bool(cbs)
                for cb in cbs:
                    if cb is None:
                        inner = False
                        continue
                    cfl = Flow(cb)
                    cg = [x for x in cfl.origins(0) if x[0] == "call" and last_seg(x[1]) == "get" and "slice" in x[1]]
                    okg = bool(cg)
                    for g in cg:
                        il = arg_local(g[3], 1)
                        ia = cfl.origins(il) if il is not None else []
                        okg = okg and any(x[0] == "arg" and x[1] == 2 for x in ia) and not [x for x in ia if x[0] == "const"]
                    inner = inner and okg
                ok = inner and bool(idx_next) and idx_next == nexts_name and not consts
                why = "closure called with the index from next@%s, name from next@%s, constants %d; the closure looks up at its argument: %s" % (
                    sorted(idx_next), sorted(nexts_name), len(consts), inner)
        ctx.check(ok, "C05-G-pair", b["id"] + "#pair-%d" % k, "filter and decode parameters are not taken at the same index: " + why, t["span"],
                  detail="params = decode_params.get(i) with (i, filter) from one enumerate() step")


def closure_partition(f, owner, k):
    b = f.body("%s::{closure#%d}" % (owner, k))
    if b is None:
        return None, None
    # closure(&mut self, &u8) / (&mut self, u8): the byte is argument 2 (possibly behind a reference)
    tr, fa, other = predicate_sets(b, arg_subject(2))
    return b, {"bool:True": tr, "bool:False": fa, "other": other}


def rule_bytes(ctx, f):
    ctx.rule("C05-TABLE", "byte classes of the decoders equal ISO 32000-1: hex digits and white-space, `>`; ASCII85 alphabet !..u, z only at a "
             "group boundary, ~> ; RunLength 0..127 copy / 128 EOD / 129..255 repeat(257-n); PNG tags 0..4; Predictor >= 10 selects PNG rows")
    ws = set(SPEC["whitespace"])
    # --- hex
    nb = f.body("enc::decode_nibble")
    if nb is None:
        ctx.lost("C05-TABLE", "enc::decode_nibble")
    else:
        p = outcome_partition(nb, arg_subject(1), ret_shape)
        want = {ord(c) for c in SPEC["hex_digits"]}
        ctx.check(p.get("Some") == want, "C05-TABLE", "enc::decode_nibble#digits",
                  "hex digit set is %s, spec %s" % (fmt_set(p.get("Some", set())), fmt_set(want)), nb["span"], detail="Some on " + fmt_set(want))
    cb, p = closure_partition(f, "enc::decode_hex", 0)
    if cb is None:
        ctx.lost("C05-TABLE", "enc::decode_hex::{closure#0} (EOD test)")
    else:
        ctx.check(p.get("bool:False") == {SPEC["asciihex"]["eod"]}, "C05-TABLE", "enc::decode_hex#eod",
                  "hex data ends at %s (spec: `>`)" % fmt_set(p.get("bool:False", set())), cb["span"], detail="take_while(b != '>')")
    cb, p = closure_partition(f, "enc::decode_hex", 1)
    if cb is None:
        ctx.lost("C05-TABLE", "enc::decode_hex::{closure#1} (white-space filter)")
    else:
        ctx.check(p.get("bool:False") == ws, "C05-TABLE", "enc::decode_hex#whitespace",
                  "hex decoder ignores %s (spec white-space %s)" % (fmt_set(p.get("bool:False", set())), fmt_set(ws)), cb["span"], detail="ignores " + fmt_set(ws))
    hb = f.body("enc::decode_hex")
    if hb is not None:
        cfg = CFG(hb)
        parity = [i for i, j, s in F.stmts(hb) if s[0] == "assign" and s[2][0] == "binop" and s[2][1] in ("Rem", "BitAnd") and
                  (F.const_int(s[2][3]) in (2, 1))]
        pads = [bi for bi, t in F.calls(hb) if last_seg(F.callee_name(t)) in ("push", "extend_from_slice", "resize") and
                any(F.const_int(a) == 48 or F.const_bytes(a) == "0" for a in t["args"])]
        ok = bool(parity) and bool(pads) and all(any(cfg.dominates(q, pd) for q in parity) for pd in pads)
        # ... on the ODD side of the test
        hfl = Flow(hb)
        sided = False
        for i, bb in enumerate(hb["blocks"]):
            tt = bb["term"]
            if tt["k"] != "switch":
                continue
            for st in bb["stmts"]:
                if st[0] == "assign" and st[2][0] == "binop" and st[2][1] in ("Eq", "Ne") and F.op_local(tt["discr"]) == st[1][0]:
                    k = F.const_int(st[2][3]) if F.const_int(st[2][3]) is not None else F.const_int(st[2][2])
                    o = st[2][2] if F.const_int(st[2][3]) is not None else st[2][3]
                    l = F.op_local(o)
                    if k not in (0, 1) or l is None or not any(a[0] == "binop" and a[1] in ("Rem", "BitAnd") for a in hfl.origins(l, passthrough=())):
                        continue
                    arms = {a[0]: a[1] for a in tt["arms"]}
                    true_t = arms.get(1, tt.get("otherwise")) if 0 in arms else None
                    false_t = arms.get(0, tt.get("otherwise"))
                    if true_t is None:
                        true_t = tt.get("otherwise")
                    odd_t = true_t if (st[2][1], k) in (("Eq", 1), ("Ne", 0)) else false_t
                    even_t = false_t if odd_t == true_t else true_t
                    if all((pd == odd_t or pd in cfg.reachable_from(odd_t, avoid={i})) and not (pd == even_t or pd in cfg.reachable_from(even_t, avoid={i})) for pd in pads):
                        sided = True
        ok = ok and sided
        ctx.check(ok, "C05-TABLE", "enc::decode_hex#odd-digit", "an odd final hex digit is not padded with 0 (7.4.2)", hb["span"],
                  detail="parity test dominates a push of '0'")
        # the FIRST digit of a pair is the high nibble: the value shifted left by 4 is decode_nibble of element 0 of the pair, the value or-ed
        # in is decode_nibble of element 1 (field-sensitive trace through the tuple patterns)
        def digit_index(op):
            pl = F.op_place(op)
            if pl is None:
                return None
            r = hfl.resolve(pl)
            ds = hfl.defs.get(r[0], [])
            if len(ds) != 1 or ds[0][0] != "call" or last_seg(F.callee_name(ds[0][2])) != "decode_nibble":
                return None
            ap = F.op_place(ds[0][2]["args"][0])
            if ap is None:
                return None
            ar = hfl.resolve(ap)
            last = [e for e in ar[1:] if e[0] in ("field", "constindex")]
            return (ar[0], last[-1][1]) if last else None
        order = None
        for i, j, st in F.stmts(hb):
            # `high << 4` or `high * 16`
            if st[0] == "assign" and st[2][0] == "binop" and ((st[2][1].startswith("Shl") and F.const_int(st[2][3]) == 4) or
                                                              (st[2][1].startswith("Mul") and 16 in (F.const_int(st[2][3]), F.const_int(st[2][2])))):
                if st[2][1].startswith("Mul") and F.const_int(st[2][2]) == 16:
                    st = [st[0], st[1], [st[2][0], st[2][1], st[2][3], st[2][2]]] + list(st[3:])
                hi = digit_index(st[2][2])
                lo = None
                # locals that hold the shifted value (a checked multiplication yields a pair whose first field is copied out)
                holders = {st[1][0]}
                for _ in range(3):
                    for i3, j3, st3 in F.stmts(hb):
                        if st3[0] == "assign" and len(st3[1]) == 1 and st3[2][0] == "use" and F.op_place(st3[2][1]) and F.op_place(st3[2][1])[0] in holders:
                            holders.add(st3[1][0])
                for i2, j2, st2 in F.stmts(hb):
                    if st2[0] == "assign" and st2[2][0] == "binop" and st2[2][1].replace("WithOverflow", "") in ("BitOr", "Add", "BitXor") and \
                            (F.op_local(st2[2][2]) in holders or F.op_local(st2[2][3]) in holders):
                        other = st2[2][3] if F.op_local(st2[2][2]) in holders else st2[2][2]
                        lo = digit_index(other)
                order = (hi, lo)
        ctx.check(order is not None and order[0] is not None and order[1] is not None and order[0][0] == order[1][0] and (order[0][1], order[1][1]) == (0, 1),
                  "C05-TABLE", "enc::decode_hex#nibble-order", "the first digit of a pair is not (visibly) the high nibble of the byte: (base, element) of the shifted / or-ed digit = %s; "
                  "`4A` must decode to 0x4A" % (order,), hb["span"], detail="byte = nibble(pair.0) << 4 | nibble(pair.1)")
    # --- ascii85
    sb = f.body("enc::sym_85")
    if sb is None:
        ctx.lost("C05-TABLE", "enc::sym_85")
    else:
        p = outcome_partition(sb, arg_subject(1), ret_shape)
        want = set(range(SPEC["ascii85"]["first"], SPEC["ascii85"]["last"] + 1))
        ctx.check(p.get("Some") == want, "C05-TABLE", "enc::sym_85#alphabet",
                  "ASCII85 alphabet is %s, spec %s" % (fmt_set(p.get("Some", set())), fmt_set(want)), sb["span"], detail="Some on " + fmt_set(want))
    cb, p = closure_partition(f, "enc::decode_85", 0)
    if cb is None:
        ctx.lost("C05-TABLE", "enc::decode_85::{closure#0} (white-space filter)")
    else:
        ctx.check(p.get("bool:False") == ws, "C05-TABLE", "enc::decode_85#whitespace",
                  "ASCII85 decoder ignores %s (spec white-space %s)" % (fmt_set(p.get("bool:False", set())), fmt_set(ws)), cb["span"], detail="ignores " + fmt_set(ws))
    cb, p = closure_partition(f, "enc::decode_85", 1)
    if cb is None:
        ctx.lost("C05-TABLE", "enc::decode_85::{closure#1} (EOD test)")
    else:
        ctx.check(p.get("bool:False") == {SPEC["ascii85"]["eod"][0]}, "C05-TABLE", "enc::decode_85#eod",
                  "ASCII85 data ends at %s (spec `~`)" % fmt_set(p.get("bool:False", set())), cb["span"], detail="take_while(b != '~')")
    db = f.body("enc::decode_85")
    if db is not None:
        cfg = CFG(db)
        zarm = None
        gt = None
        for i, bb in enumerate(db["blocks"]):
            t = bb["term"]
            if t["k"] == "switch" and t["discr_ty"] == "u8":
                for v, tg in t["arms"]:
                    if v == SPEC["ascii85"]["zero_group"]:
                        zarm = (i, tg, t)
                    if v == SPEC["ascii85"]["eod"][1]:
                        gt = (i, tg, t)
        okz = False
        if zarm:
            i, tg, t = zarm
            others = {x for v, x in t["arms"] if x != tg} | {t["otherwise"]}
            reg = cfg.reachable_from(tg) - set().union(*[cfg.reachable_from(o) for o in others]) if others else cfg.reachable_from(tg)
            names = [last_seg(F.callee_name(tt)) for r, tt in region_calls(db, reg | {tg})]
            okz = "extend_from_slice" in names and "word_85" not in names
            # z is read as the FIRST symbol of a group only: the switch's subject comes from the first next() of an iteration
        w85 = f.body("enc::word_85")
        if w85 is None:
            ctx.lost("C05-TABLE", "enc::word_85")
        else:
            bo = [last_seg(F.callee_name(tt)) for _, tt in F.calls(w85) if last_seg(F.callee_name(tt)) in ("to_be_bytes", "to_le_bytes", "to_ne_bytes")]
            ctx.check(bo == ["to_be_bytes"], "C05-TABLE", "enc::word_85#byte-order", "the four bytes of an ASCII85 group are produced with %s (the format is big-endian: most "
                      "significant byte first)" % bo, w85["span"], detail="to_be_bytes")
        ctx.check(okz, "C05-TABLE", "enc::decode_85#z", "`z` is not expanded to four zero bytes at a group boundary", db["span"], detail="'z' -> [0;4], other positions reject it (sym_85)")
        ctx.check(gt is not None, "C05-TABLE", "enc::decode_85#eod2", "`~` is not required to be followed by `>`", db["span"], detail="'~' must be followed by '>'")
        # a short final group is completed with the highest digit `u` (84): the constants the decoder fills five-digit groups with
        pads = set()
        ngroups = 0
        for i, j, st in F.stmts(db):
            if st[0] != "assign":
                continue
            rv = st[2]
            if rv[0] == "aggregate" and rv[1].get("k") == "array" and rv[1].get("elem") == "u8" and len(rv[2]) == 5:
                cs = [F.const_int(o) for o in rv[2] if o[0] == "const"]
                if cs:
                    ngroups += 1
                    pads |= set(cs)
            elif rv[0] == "repeat" and str(rv[2]) in ("5", "const 5") and rv[1][0] == "const":
                ngroups += 1
                pads.add(F.const_int(rv[1]))
        ctx.floor("C05-TABLE", ngroups, 4, "partially filled five-digit groups in decode_85")
        ctx.check(pads == {SPEC["ascii85"]["last"]}, "C05-TABLE", "enc::decode_85#tail-pad",
                  "a short final ASCII85 group is completed with %s (the specification's decoder pads with `u`, the highest digit): the last bytes of data "
                  "whose length is not a multiple of 4 come out wrong" % fmt_set(pads), db["span"], detail="pad digit 'u'")
    # --- run length
    rb = None
    tb = f.body("enc::decode")
    for b in f.bodies.values():
        if b["id"] == "enc::run_length_decode":
            rb = b
    if rb is None:
        ctx.lost("C05-TABLE", "enc::run_length_decode")
    else:
        def subj(e):
            # the length byte: data[c], or the payload of data.get(c) (`let Some(&length) = data.get(c) else { break }`) -- not data.get(c + 1)
            if not isinstance(e, tuple):
                return False
            if e[0] == "index":
                return True
            x = e
            while isinstance(x, tuple) and x[0] in ("deref", "ref", "cast", "field", "downcast"):
                x = x[1]
            # the payload of the look-up itself (not its Some / None discriminant, not an expression that merely contains it)
            return isinstance(x, tuple) and x[0] == "call" and last_seg(x[1]) == "get" and len(x[2]) == 2 and "Add" not in show(x[2][1]) and e[0] != "call"

        def describe(ps, path):
            marks = set()
            for bidx in path:
                if bidx < 0:
                    continue
                blk = rb["blocks"][bidx]
                for s in blk["stmts"]:
                    if s[0] == "assign" and s[2][0] == "binop" and s[2][1].startswith("Sub") and F.const_int(s[2][2]) == 257:
                        marks.add("repeat(257-n)")
                t = blk["term"]
                if t["k"] == "call" and last_seg(F.callee_name(t)) == "extend_from_slice":
                    marks.add("copy")
                if t["k"] == "call" and "Repeat" in t.get("callee_full", "") + F.callee_name(t) or (t["k"] == "call" and last_seg(F.callee_name(t)) == "repeat"):
                    marks.add("repeat")
            if path[-1] >= 0 and rb["blocks"][path[-1]]["term"]["k"] == "return":
                e = ps.expr_of_local(0, len(ps.events))
                marks.add("return:" + shape(e))
            return ",".join(sorted(marks))
        part = {}
        for S, path in classify(rb, subj, record_cycles=True):
            if path[-1] == -1:
                part.setdefault("diverges", set()).update(S)
                continue
            pp = path[:-1] if path[-1] == -2 else path
            key = describe(PathSym(rb, [x for x in pp if x >= 0]), pp)
            part.setdefault(key, set()).update(S)
        # classes: which bytes can take a copy path / repeat path / direct EOD return
        copy = set().union(*[v for k, v in part.items() if "copy" in k and "repeat" not in k] or [set()])
        rep = set().union(*[v for k, v in part.items() if "repeat(257-n)" in k] or [set()])
        only_ret = set(range(256))
        for k, v in part.items():
            if ("copy" in k or "repeat" in k):
                pass
        eod = set(range(256)) - copy - rep
        # a value is "eod" if the only paths it can take read it and then return Ok without copy/repeat
        want_copy = set(range(0, SPEC["runlength"]["copy_max"] + 1))
        want_rep = set(range(SPEC["runlength"]["repeat_min"], 256))
        ctx.check(copy == want_copy, "C05-TABLE", "enc::run_length_decode#copy", "length bytes %s start a literal run (spec 0..127)" % fmt_set(copy), rb["span"], detail="0..127 -> copy n+1")
        ctx.check(rep == want_rep, "C05-TABLE", "enc::run_length_decode#repeat", "length bytes %s start a repeat of 257-n (spec 129..255)" % fmt_set(rep), rb["span"], detail="129..255 -> repeat 257-n")
        ctx.check(eod == {128}, "C05-TABLE", "enc::run_length_decode#eod", "length bytes %s end the data (spec 128)" % fmt_set(eod), rb["span"], detail="128 -> EOD")
        # literal run length n+1: end = (c+1) + n + 1
        from linear import linear, difference
        rfl = Flow(rb)
        runs = []
        for i, j, s in F.stmts(rb):
            if s[0] == "assign" and s[2][0] == "aggregate" and s[2][1].get("adt") == "std::ops::Range" and len(s[2][2]) == 2:
                st_, df_ = linear(rfl, s[2][2][0]), difference(rfl, s[2][2][1], s[2][2][0])
                runs.append((st_, df_))
        for bi, t in F.calls(rb):
            # `start..=start + n`
            if last_seg(F.callee_name(t)) == "new" and "RangeInclusive" in F.callee_name(t) + t.get("callee_full", "") and len(t["args"]) == 2:
                st_, df_ = linear(rfl, t["args"][0]), difference(rfl, t["args"][1], t["args"][0])
                runs.append((st_, (df_[0], df_[1] + 1) if df_ is not None else None))
        okr = len(runs) == 1 and runs[0][0] is not None and runs[0][1] is not None and runs[0][0][1] == 1 and list(runs[0][0][0].values()) == [1] and \
            runs[0][1][1] == 1 and list(runs[0][1][0].values()) == [1]
        ctx.check(okr, "C05-TABLE", "enc::run_length_decode#n+1", "the literal run is not the n + 1 bytes that follow the length byte (start, end - start as sums: %s)" % (runs,),
                  rb["span"], detail="start = c + 1, end - start = n + 1")
    # --- predictor tags
    pb = f.body("enc::PredictorType::from_u8")
    if pb is None:
        ctx.lost("C05-TABLE", "enc::PredictorType::from_u8")
    else:
        p = outcome_partition(pb, arg_subject(1), ret_shape)
        names = {"None": "NoFilter", "Sub": "Sub", "Up": "Up", "Average": "Avg", "Paeth": "Paeth"}
        for tag, sp in SPEC["png_predictor_tags"].items():
            got = [k for k, v in p.items() if int(tag) in v]
            want = "Ok(enc::PredictorType::%s)" % names[sp]
            ctx.check(got == [want] and p.get(want) == {int(tag)}, "C05-TABLE", "enc::PredictorType::from_u8#%s" % tag,
                      "PNG row tag %s selects %s (spec %s)" % (tag, got, sp), pb["span"], detail="%s -> %s" % (tag, names[sp]))
        ctx.check(p.get("Err") == set(range(5, 256)), "C05-TABLE", "enc::PredictorType::from_u8#invalid",
                  "row tags %s are errors (spec: only 0..4 defined)" % fmt_set(p.get("Err", set())), pb["span"], detail="5..255 -> Err")


def rule_predictor(ctx, f):
    ctx.rule("C05-TABLE-pred", "Predictor >= 10 selects PNG un-prediction; Predictor 2 (TIFF) is handled differently from Predictor 1; "
             "each PNG row filter reads exactly the neighbours the PNG specification names")
    b = f.body("enc::flate_decode")
    if b is None:
        ctx.lost("C05-TABLE-pred", "enc::flate_decode")
        return

    def subj(e):
        return isinstance(e, tuple) and e[0] == "field" and e[2] == "predictor"
    unf = {bi for bi, t in F.calls(b) if last_seg(F.callee_name(t)) in ("from_u8", "unfilter")}
    # first block after inflation where the predictor is tested: classify from entry, stop at un-prediction or return
    part = {"png": set(), "plain": set()}
    png_stop = set(unf)
    for S, path in classify(b, subj, stops=png_stop, record_cycles=True, max_paths=200000):
        last = [x for x in path if x >= 0][-1]
        if S == FULL:
            continue  # the predictor was never tested on this path (early error return)
        if last in png_stop:
            part["png"].update(S)
        elif b["blocks"][last]["term"]["k"] == "return":
            part["plain"].update(S)
    png_only = part["png"]
    ctx.check(png_only == set(range(10, 256)), "C05-TABLE-pred", "enc::flate_decode#threshold",
              "PNG un-prediction is selected for Predictor %s (spec: 10..15)" % fmt_set(png_only), b["span"], detail="Predictor >= 10 -> PNG rows")
    # TIFF predictor: value 2 must not share the outcome of value 1
    plain_only = part["plain"] - part["png"]
    tiff_same = 2 in plain_only and 1 in plain_only
    tiff_calls = [t for bi, t in F.calls(b) if "tiff" in F.callee_name(t).lower()]
    ctx.check(not tiff_same or bool(tiff_calls), "C05-TABLE-pred", "enc::flate_decode#tiff-predictor",
              "Predictor 2 (TIFF) takes the same path as Predictor 1 (no prediction): TIFF-predicted data is returned un-reconstructed",
              b["span"], detail="Predictor 2 handled")
    # which buffers the row filter is handed: the encoded row comes out of the inflated data (as the tag byte does), the previous row and
    # the output row out of the buffers allocated here
    bfl = Flow(b)
    PT = ("index", "index_mut", "deref", "deref_mut", "as_slice", "as_mut_slice", "split_at_mut", "split_at", "branch", "unwrap", "into_result")
    def buf_roots(l):
        """calls that produce a byte buffer in the provenance of l (sizes and offsets that flow in through the index expressions are not roots)"""
        out = set()
        for x in bfl.origins(l, passthrough=PT) if l is not None else []:
            if x[0] == "call" and last_seg(x[1]) not in PT and x[3].get("dest"):
                ty = b["locals"][x[3]["dest"][0]]["s"]
                if "u8" in ty and "usize" not in ty.replace("u8", ""):
                    out.add((x[1], x[2]))
        return out
    tag_roots = set()
    for bi, t in F.calls(b):
        if last_seg(F.callee_name(t)) == "from_u8":
            tag_roots |= buf_roots(F.op_local(t["args"][0]))
    for bi, t in F.calls(b):
        if last_seg(F.callee_name(t)) != "unfilter" or len(t["args"]) < 5:
            continue
        roots = []
        for k in (2, 3, 4):
            roots.append(buf_roots(F.op_local(t["args"][k])))
        prev_r, inp_r, out_r = roots
        ok = bool(tag_roots) and bool(inp_r & tag_roots) and not (prev_r & tag_roots) and not (out_r & tag_roots) and not (inp_r & out_r)
        ctx.check(ok, "C05-TABLE-pred", "enc::flate_decode#row-buffers", "the row filter is not given (previous output row, encoded row, output row): the encoded-row argument "
                  "%s the inflated data, the previous-row argument %s" % ("comes from" if inp_r & tag_roots else "does not come from",
                                                                          "comes from the inflated data" if prev_r & tag_roots else "is fine"), t["span"],
                  detail="unfilter(tag, bpp, prev <- out/zeros, inp <- inflated, out <- out)")
    # unfilter reads
    ub = f.body("enc::unfilter")
    if ub is None:
        ctx.lost("C05-TABLE-pred", "enc::unfilter")
        return
    cfg = CFG(ub)
    fl = Flow(ub)
    vs = {v["vi"]: v["name"] for v in f.adts["enc::PredictorType"]["variants"]}
    sws = enum_switches(ub, "enc::PredictorType", f)
    if not sws:
        # matched by value: switch directly on the u8-repr enum argument
        for i, bb in enumerate(ub["blocks"]):
            t = bb["term"]
            if t["k"] == "switch":
                for s in bb["stmts"]:
                    if s[0] == "assign" and s[2][0] == "discr" and s[2][1][0] == 1:
                        sws.append((i, s[2][1], {a[0]: a[1] for a in t["arms"]}, t["otherwise"]))
    if not ctx.floor("C05-TABLE-pred", len(sws), 1, "switch on the row filter in enc::unfilter"):
        return
    i, pl, arms, other = sws[0]
    entries = {vs[k]: tg for k, tg in arms.items()}
    missing = [n for n in vs.values() if n not in entries]
    if len(missing) == 1:
        entries[missing[0]] = other
    regs = exclusive_regions(cfg, entries)
    argname = {3: "prev", 4: "inp", 5: "out"}
    want = {"Sub": {("inp", "i"), ("out", "i-bpp")}, "Up": {("inp", "i"), ("prev", "i")},
            "Avg": {("inp", "i"), ("prev", "i"), ("out", "i-bpp")},
            "Paeth": {("inp", "i"), ("prev", "i"), ("out", "i-bpp"), ("prev", "i-bpp")}}
    for vn, reg in regs.items():
        if vn not in want:
            continue
        reads = set()
        for r in reg:
            for s in ub["blocks"][r]["stmts"]:
                if s[0] != "assign" or s[2][0] != "use":
                    continue
                p2 = F.op_place(s[2][1])
                if not p2:
                    continue
                idx = [e for e in p2[1:] if e[0] == "index"]
                if not idx:
                    continue
                base = {a[1] for a in fl.origins(p2[0]) if a[0] == "arg"}
                il = idx[0][1]
                isub = any(a[0] == "binop" and a[1].startswith("Sub") for a in fl.origins(il, passthrough=()))
                for a in base:
                    if a in argname:
                        reads.add((argname[a], "i-bpp" if isub else "i"))
        if vn == "Paeth":
            # the predictor's arguments are (left, up, upper-left) in this order: ties are broken in favour of the first, then the second
            shapes = []
            for r in sorted(reg):
                tt = ub["blocks"][r]["term"]
                if tt["k"] == "call" and last_seg(F.callee_name(tt)) == "filter_paeth" and len(tt["args"]) == 3:
                    sh = []
                    for a0 in tt["args"]:
                        l0 = F.op_local(a0)
                        got = None
                        for d0 in fl.defs.get(l0, []) if l0 is not None else []:
                            if d0[0] == "assign" and d0[2][0] == "use":
                                p3 = F.op_place(d0[2][1])
                                idx3 = [e for e in (p3 or [])[1:] if e[0] == "index"]
                                if p3 and idx3:
                                    base3 = {a[1] for a in fl.origins(p3[0]) if a[0] == "arg"}
                                    sub3 = any(a[0] == "binop" and a[1].startswith("Sub") for a in fl.origins(idx3[0][1], passthrough=()))
                                    got = (sorted(argname.get(x, "?") for x in base3)[0] if base3 else "?", "i-bpp" if sub3 else "i")
                        sh.append(got if got else ("const", F.const_int(a0)))
                    shapes.append(sh)
            full = [x for x in shapes if all(y[0] != "const" for y in x)]
            ctx.check(bool(full) and all(x == [("out", "i-bpp"), ("prev", "i"), ("prev", "i-bpp")] for x in full), "C05-TABLE-pred", "enc::unfilter#Paeth-order",
                      "the Paeth predictor is called with %s (PNG: left = out[i-bpp], up = prev[i], upper-left = prev[i-bpp], in this order - ties go to the "
                      "earlier argument)" % full, ub["span"], detail="filter_paeth(left, up, upper-left)")
        ctx.check(reads == want[vn], "C05-TABLE-pred", "enc::unfilter#" + vn,
                  "row filter %s reads %s, PNG specifies %s" % (vn, sorted(reads), sorted(want[vn])), ub["span"],
                  detail="%s reads %s" % (vn, sorted(want[vn])))


def rule_use(ctx, f, known_only=False):
    ctx.rule("C05-USE", "every decode parameter the specification gives a meaning to is read on the decoder's path: "
             "Predictor, Colors, BitsPerComponent, Columns for Flate and LZW; EarlyChange for LZW")
    names = {"predictor": "Predictor", "n_components": "Colors", "bits_per_component": "BitsPerComponent", "columns": "Columns", "early_change": "EarlyChange"}

    def fields_read(start):
        seen = set()
        out = set()
        st = [start]
        while st:
            b = st.pop()
            if b["id"] in seen:
                continue
            seen.add(b["id"])
            for bb in [b] + f.closures_of(b["id"]):
                for blk in bb["blocks"]:
                    places = []
                    for s in blk["stmts"]:
                        if s[0] == "assign":
                            rv = s[2]
                            if rv[0] in ("use", "cast"):
                                op = rv[1] if rv[0] == "use" else rv[2]
                                if F.op_place(op):
                                    places.append(F.op_place(op))
                            elif rv[0] in ("ref", "discr"):
                                places.append(rv[1])
                            elif rv[0] == "binop":
                                for op in (rv[2], rv[3]):
                                    if F.op_place(op):
                                        places.append(F.op_place(op))
                    t = blk["term"]
                    if t["k"] == "switch" and F.op_place(t["discr"]):
                        places.append(F.op_place(t["discr"]))
                    if t["k"] == "call":
                        for a in t["args"]:
                            if F.op_place(a):
                                places.append(F.op_place(a))
                        if t.get("resolved_local") and any("LZWFlateParams" in at["s"] for at in t.get("arg_tys", [])):
                            cb = f.body(t.get("resolved"))
                            if cb is not None:
                                st.append(cb)
                    for p2 in places:
                        if "LZWFlateParams" in bb["locals"][p2[0]]["s"]:
                            for e in p2[1:]:
                                if e[0] == "field" and e[2] in names:
                                    out.add(e[2])
        return out
    for fn, need in (("enc::flate_decode", ["predictor", "n_components", "bits_per_component", "columns"]),
                     ("enc::lzw_decode", ["early_change", "predictor"])):
        b = f.body(fn)
        if b is None:
            ctx.lost("C05-USE", fn)
            continue
        got = fields_read(b)
        for fld in need:
            ctx.check(fld in got, "C05-USE", "%s#%s" % (fn, fld),
                      "/%s is never read by %s: the parameter cannot influence the output although the specification says it does" % (names[fld], fn),
                      b["span"], detail="/%s is read" % names[fld])


def rule_lzw_variant(ctx, f):
    ctx.rule("C05-TABLE-lzw", "LZW decoder: EarlyChange 0 selects the plain code-size switch, every other value (the default is 1) the early one")
    import c16
    db = f.body("enc::lzw_decode")
    if db is None:
        ctx.lost("C05-TABLE-lzw", "enc::lzw_decode")
        return
    da = c16._weezl_ctor_args(db, "decode")
    if not ctx.floor("C05-TABLE-lzw", len(da), 2, "weezl decoder constructions"):
        return

    def subj(e):
        return isinstance(e, tuple) and e[0] == "field" and e[2] == "early_change"
    stops = {c[0] for c in da}
    res = {}
    for S, path in classify(db, subj, stops=stops):
        last = [x for x in path if x >= 0][-1]
        for c in da:
            if c[0] == last:
                res.setdefault(c[1], set()).update(S)
    early = res.get("with_tiff_size_switch", set())
    plain = res.get("new", set())
    vals = lambda S: {x for x in S if isinstance(x, int)}
    ok = 0 in vals(plain) and 0 not in vals(early) and 1 in vals(early) and 1 not in vals(plain)
    ctx.check(ok, "C05-TABLE-lzw", "enc::lzw_decode#early-change", "EarlyChange %s selects the early code-size switch and %s the plain one (spec: 0 -> plain, 1 (default) -> early)"
              % (fmt_set(vals(early)), fmt_set(vals(plain))), db["span"], detail="EarlyChange != 0 -> early switch")


def rule_geometry(ctx, f):
    ctx.rule("C05-USE-geometry", "predictor geometry of any size is decoded: /Colors and /Columns are rejected only when they are below 1 (no upper limit, no range test) - "
             "the property quantifies over any colours and columns")
    b = f.body("enc::flate_decode")
    if b is None:
        ctx.lost("C05-USE-geometry", "enc::flate_decode")
        return
    bodies = [b]
    for bi, t in F.calls(b):
        cb = f.bodies.get(t.get("resolved") or "")
        if cb is not None and t.get("resolved_local") and not cb.get("pub") and cb["_file"] == b["_file"] and cb not in bodies:
            bodies.append(cb)
    n = 0
    bad = []
    for bb in bodies:
        fl = Flow(bb)
        for i, j, st in F.stmts(bb):
            if st[0] == "assign" and st[2][0] == "binop" and st[2][1] in ("Lt", "Le", "Gt", "Ge", "Eq", "Ne"):
                for side, o in ((0, st[2][2]), (1, st[2][3])):
                    other = st[2][3] if side == 0 else st[2][2]
                    c = F.const_int(other)
                    if c is None and F.op_local(other) is not None:
                        # a constant that went through a cast (`u16::MAX as usize`)
                        oa = fl.origins(F.op_local(other))
                        if oa and all(a[0] == "const" and isinstance(a[1], dict) and "int" in a[1] for a in oa):
                            c = max(a[1]["int"] for a in oa)
                    if c is None:
                        continue
                    fs = set()
                    l = F.op_local(o)
                    if l is not None:
                        fl.origins(l, fields=fs, passthrough=())
                    pl = F.op_place(o)
                    if pl:
                        Flow._note_fields(pl, fs)
                    which = fs & {"n_components", "columns"}
                    if not which and l is not None and c > 1 and st[2][1] in ("Lt", "Le", "Gt", "Ge"):
                        # a quantity computed from them (the row length `columns * colours`) held against a constant limit
                        fs2 = set()
                        fl.origins(l, fields=fs2)
                        if fs2 & {"n_components", "columns"}:
                            bad.append("a value computed from %s %s %d" % ("/".join(sorted(fs2 & {"n_components", "columns"})), st[2][1], c))
                    if len(which) != 1:
                        continue
                    n += 1
                    op = st[2][1] if side == 0 else {"Lt": "Gt", "Le": "Ge", "Gt": "Lt", "Ge": "Le", "Eq": "Eq", "Ne": "Ne"}[st[2][1]]
                    lower = (op in ("Lt", "Ge") and c == 1) or (op in ("Le", "Gt", "Eq", "Ne") and c == 0)
                    if not lower:
                        bad.append("%s %s %d" % (sorted(which)[0], op, c))
        for bi, t in F.calls(bb):
            if last_seg(F.callee_name(t)) == "contains" and "Range" in F.callee_name(t) + t.get("callee_full", ""):
                fs = set()
                for a in t["args"]:
                    l = F.op_local(a)
                    if l is not None:
                        fl.origins(l, fields=fs)
                if fs & {"n_components", "columns"}:
                    bad.append("%s tested with a range" % sorted(fs & {"n_components", "columns"})[0])
    ctx.floor("C05-USE-geometry", n, 2, "constant comparisons of /Colors and /Columns")
    ctx.check(not bad, "C05-USE-geometry", "enc::flate_decode#lower-bound-only", "predictor geometry is limited from above or to a range (%s): valid data with more colours / "
              "columns is refused" % ", ".join(bad), b["span"], detail="Colors < 1 || Columns < 1 -> error, nothing else")


# ISO 32000-1 Table 8: optional parameters of LZWDecode / FlateDecode and their defaults; the field each is read into
LZW_FLATE_PARAMS = {"Predictor": ("predictor", 1), "Colors": ("n_components", 1), "BitsPerComponent": ("bits_per_component", 8), "Columns": ("columns", 1),
                    "EarlyChange": ("early_change", 1)}


def rule_defaults(ctx, f):
    ctx.rule("C05-USE-defaults", "the decode parameters of LZWDecode / FlateDecode are read from the keys of Table 8 into the fields the decoders use, and an absent key "
             "(or an absent /DecodeParms) means the specification's default (Predictor 1, Colors 1, BitsPerComponent 8, Columns 1, EarlyChange 1)")
    b = f.impl_method("object::FromDict", "enc::LZWFlateParams", "from_dict")
    if b is None:
        ctx.lost("C05-USE-defaults", "<LZWFlateParams as FromDict>::from_dict")
        return
    fl = Flow(b)
    cfg = CFG(b)
    site_key = {}
    n = 0
    for bi, t in F.calls(b):
        if F.callee_name(t) != "primitive::Dictionary::remove":
            continue
        key = F.const_str(t["args"][1])
        if key is None:
            ks = [a[1]["str"] for a in fl.origins(arg_local(t, 1)) if a[0] == "const" and isinstance(a[1], dict) and "str" in a[1]] if arg_local(t, 1) is not None else []
            key = ks[0] if len(ks) == 1 else None
        sw = b["blocks"][t["target"]]["term"]
        if key is None or sw["k"] != "switch":
            continue
        site_key[bi] = key
        arms = {a[0]: a[1] for a in sw["arms"]}
        none_t, some_t = arms.get(0, sw["otherwise"]), arms.get(1, sw["otherwise"])
        only = (cfg.reachable_from(none_t, avoid={some_t}) | {none_t}) - cfg.reachable_from(some_t)
        consts = [st[2][1][1].get("int") for r in sorted(only) for st in b["blocks"][r]["stmts"] if st[0] == "assign" and st[2][0] == "use" and st[2][1][0] == "const" and
                  "int" in st[2][1][1] and st[2][1][1].get("ty") == "i32"]
        if key in LZW_FLATE_PARAMS:
            n += 1
            ctx.check(consts[:1] == [LZW_FLATE_PARAMS[key][1]], "C05-USE-defaults", "LZWFlateParams#" + key, "an absent /%s is read as %s, Table 8 says %d: streams that leave the key out "
                      "(the normal case) are decoded with the wrong setting" % (key, consts[:1], LZW_FLATE_PARAMS[key][1]), t["span"], detail="/%s default %d" % (key, LZW_FLATE_PARAMS[key][1]))
    ctx.floor("C05-USE-defaults", n, 5, "keys of LZWFlateParams with a default")
    # field <- key
    for i, j, st in F.stmts(b):
        if st[0] == "assign" and st[2][0] == "aggregate" and st[2][1].get("adt") == "enc::LZWFlateParams":
            for fname, op in zip(st[2][1]["fields"], st[2][2]):
                l = F.op_local(op)
                keys = sorted({site_key[a[2]] for a in fl.origins(l, passthrough=PASS_LAST + ("from_primitive",)) if a[0] == "call" and a[2] in site_key}) if l is not None else []
                want = [k for k, (fn_, d_) in LZW_FLATE_PARAMS.items() if fn_ == fname]
                ctx.check(keys == want, "C05-USE-defaults", "LZWFlateParams." + fname, "the field %s is read from %s, Table 8 gives %s" % (fname, keys, want), b["span"], detail="%s <- /%s" % (fname, "/".join(want)))
    d = f.impl_method("std::default::Default", "enc::LZWFlateParams", "default")
    if d is None:
        ctx.lost("C05-USE-defaults", "<LZWFlateParams as Default>::default")
        return
    for i, j, st in F.stmts(d):
        if st[0] == "assign" and st[2][0] == "aggregate" and st[2][1].get("adt") == "enc::LZWFlateParams":
            got = {fn_: F.const_int(op) for fn_, op in zip(st[2][1]["fields"], st[2][2])}
            want = {fn_: d_ for k, (fn_, d_) in LZW_FLATE_PARAMS.items()}
            ctx.check(got == want, "C05-USE-defaults", "LZWFlateParams::default", "a stream without /DecodeParms is decoded with %s, Table 8 gives %s" % (got, want), d["span"], detail="Default = Table 8")


def rule_avg_width(ctx, f):
    """seeded C05-9: the Average un-predictor halves the sum of the byte to the left and the byte above; the sum of two bytes needs nine bits, so it is
    formed in a wider type (a sum reduced mod 256 before the halving decodes bright image rows wrongly)"""
    ctx.rule("C05-AVG", "in the PNG un-predictor no sum of bytes is halved in the byte type: a dividend of `/ 2` (or `>> 1`) that is itself a sum "
             "(`+`, wrapping_add ..) has a type wider than u8")
    b = f.body("enc::unfilter")
    if b is None:
        ctx.lost("C05-AVG", "enc::unfilter")
        return
    n = 0
    # the un-predictor, its closures and the crate-local helpers it calls (an `avg(left, up)` helper is part of it)
    units = [b] + f.closures_of(b["id"]) + [f.bodies[x] for x in sorted(transitive_callees(f, b)) if x in f.bodies and x != b["id"]]
    for b in units:
      fl = Flow(b)
      for bi, bb in enumerate(b["blocks"]):
        for st in bb["stmts"]:
            if not (st[0] == "assign" and st[2][0] == "binop" and st[2][1] in ("Div", "Shr")):
                continue
            rv = st[2]
            c = F.const_int(rv[3])
            if not ((rv[1] == "Div" and c == 2) or (rv[1] == "Shr" and c == 1)) or rv[2][0] not in ("copy", "move"):
                continue
            n += 1
            l = rv[2][1][0]
            ty = b["locals"][l]["s"]
            sums = [a for a in fl.origins(l, passthrough=("branch", "unwrap", "expect", "from", "into")) if (a[0] == "binop" and a[1].startswith("Add")) or
                    (a[0] == "call" and last_seg(a[1]) in ("wrapping_add", "checked_add", "saturating_add", "overflowing_add", "add"))]
            ctx.check(not (ty in ("u8", "i8") and sums), "C05-AVG", "%s#halved-sum-%s" % (b["id"], ty),
                      "a sum of bytes is halved in the type %s: left + up is reduced mod 256 before the division, so an Average row with left + up >= 256 "
                      "decodes to other bytes than the encoder filtered" % ty, "pdf/src/enc.rs (block %d)" % bi, detail="`/ 2` on a %s%s" % (ty, " sum" if sums else " (no sum)"))
    ctx.floor("C05-AVG", n, 2, "halvings in the PNG un-predictor (Average: first bpp bytes, rest of the row)")


def run(ctx):
    f = F.load("default")
    ctx.count("bodies", len(f.bodies))
    rule_names(ctx, f)
    rule_defaults(ctx, f)
    rule_dispatch(ctx, f)
    rule_chain(ctx, f)
    rule_pairing(ctx, f)
    import c18
    c18.rule_vec_reader(ctx, f, "C05-G-pair")
    rule_bytes(ctx, f)
    rule_predictor(ctx, f)
    rule_avg_width(ctx, f)
    rule_lzw_variant(ctx, f)
    rule_geometry(ctx, f)
    rule_use(ctx, f)
    return ctx.finish(
        "Static analysis of MIR facts of enc.rs / stream.rs / file.rs. Tables are extracted from the program: string-match arms "
        "(filter names), enum-match arms (dispatch, writer names, row filters), and exact byte classes by a path-sensitive "
        "set-refinement over the 256 byte values (the subject is only compared with constants). They are compared with ISO 32000-1 "
        "(spec/iso32000.json) or with the sibling table. Chain order and Filter/DecodeParms pairing are provenance facts. "
        "Decides structure only: the decoded bytes themselves (un-prediction arithmetic, ASCII85 tail, libflate/weezl internals) are not decided.",
        ["rustc nightly MIR construction", "mirx exporter", "spec/iso32000.json transcribed from ISO 32000-1 7.4", "PNG specification 9.2 for the neighbours of each row filter"])
