"""C20 — a page imported into another document is equal and self-contained.

Decided (structure): the importer enters the new reference into its memo before it descends
into an object it has to load (PAIR1: reference cycles terminate); no look-up in the typed memo
is unwrapped on the assumption that the untyped memo implies it (PAIR2); every operator that
names a resource has an arm in deep_clone_op that copies from the matching Resources map, and
every Resources map has such an arm (SIB); references produced by deep_clone come from the
Cloner, never from a verbatim copy, and derived DeepClone covers every field (G1); stream bytes
are fetched through the source resolver and stored as generated data (G2); the import path
contains no panic construct (PANIC); the library's own post-import comparison accepts equal
dictionaries (G3).
Not decided: equality of copied content.
"""
import facts as F
from cfg import CFG, ccp_reachable
from flow import Flow, call_sites, arg_local, last_seg, PASS_LAST
from tables import enum_switches, exclusive_regions, region_calls, arm_regions
from sym import PathSym, enum_paths, feasible, walk, show

PANICS = ("core::panicking::", "std::rt::begin_panic", "core::option::unwrap_failed", "core::result::unwrap_failed", "core::option::expect_failed")
# operator -> resource category (ISO 32000-1 7.8.3 table 33) -> Resources field of the library's model
RES_BY_OP = {"GraphicsState": "graphics_states", "TextFont": "fonts", "XObject": "xobjects", "FillColorSpace": "color_spaces",
             "StrokeColorSpace": "color_spaces", "FillColor": "pattern", "StrokeColor": "pattern", "BeginMarkedContent": "properties",
             "MarkedContentPoint": "properties", "Shade": "shading"}


def importer_bodies(f):
    out = {}
    for b in f.bodies.values():
        im = b.get("impl") or {}
        if im.get("trait") == "object::Cloner" and im.get("self", "").startswith("build::Importer") and b["kind"] != "Closure":
            out[b["id"].split("::")[-1]] = b
    return out


def rule_pair1(ctx, f, imp):
    ctx.rule("C20-PAIR1", "a clone_* method that loads the old object from the source (Resolve::get / resolve) enters old -> new into the memo before the "
             "recursive deep_clone starts; the new id comes from a promise that is fulfilled afterwards")
    n = 0
    for name, b in sorted(imp.items()):
        loads = [bi for bi, t in F.calls(b) if t.get("callee") in ("object::Resolve::get", "object::Resolve::resolve", "object::Resolve::resolve_flags")]
        dcs = [bi for bi, t in F.calls(b) if t.get("callee") == "object::DeepClone::deep_clone"]
        if not loads or not dcs:
            continue
        n += 1
        cfg = CFG(b)
        fl = Flow(b)
        ins = []
        for bi, t in F.calls(b):
            if last_seg(F.callee_name(t)) == "insert" and "HashMap" in F.callee_name(t):
                fs = set()
                fl.origins(arg_local(t, 0), fields=fs)
                if "map" in fs:
                    ins.append((bi, t))
        ok = bool(ins) and all(any(cfg.dominates(i[0], d) for i in ins) for d in dcs)
        ctx.check(ok, "C20-PAIR1", b["id"] + "#memo-before-descent",
                  "the memo entry is made after the recursive copy: a reference cycle in the source (a dictionary that points back at itself, "
                  "annotation <-> parent) recurses until the stack overflows", b["span"], detail="map.insert(old, new) dominates deep_clone")
        # the value inserted comes from a promise, which is fulfilled on the way out
        proms = [bi for bi, t in F.calls(b) if last_seg(F.callee_name(t)) == "promise"]
        fuls = [bi for bi, t in F.calls(b) if last_seg(F.callee_name(t)) == "fulfill"]
        ok2 = bool(proms) and bool(fuls) and all(cfg.dominates(p, i[0]) for p in proms for i in ins) and all(any(cfg.dominates(d, fu) for fu in fuls) for d in dcs)
        ctx.check(ok2, "C20-PAIR1", b["id"] + "#promise-fulfil", "the pre-registered reference is not a promise fulfilled with the copied object", b["span"], detail="promise -> insert -> deep_clone -> fulfill")
    ctx.floor("C20-PAIR1", n, 2, "clone methods that load from the source (clone_ref, clone_plainref)")


def rule_memo_dir(ctx, f, imp):
    ctx.rule("C20-PROV-memo", "every entry of the importer's old -> new memo is keyed by (something read from) the old object handed in and maps to the reference "
             "created / promised in the target; the look-ups use the same direction")
    n = 0
    NEW = ("create", "promise", "fulfill")
    for name, b in sorted(imp.items()):
        fl = Flow(b)
        for bi, t in F.calls(b):
            if last_seg(F.callee_name(t)) != "insert" or "HashMap" not in F.callee_name(t) or len(t["args"]) < 3:
                continue
            fs = set()
            fl.origins(arg_local(t, 0), fields=fs)
            if "map" not in fs:
                continue
            n += 1
            kl, vl = arg_local(t, 1), arg_local(t, 2)
            from flow import PASS_LAST
            pt = PASS_LAST + ("get_ref", "get_inner", "get_plain_ref", "from_id")
            ko = fl.origins(kl, passthrough=pt) if kl is not None else []
            vo = fl.origins(vl, passthrough=pt) if vl is not None else []
            k_new = any(a[0] == "call" and last_seg(a[1]) in NEW for a in ko)
            k_old = any(a[0] == "arg" and a[1] >= 2 for a in ko)
            v_new = any(a[0] == "call" and last_seg(a[1]) in NEW for a in vo) or any(a[0] == "call" and last_seg(a[1]) == "get" and "HashMap" in a[1] for a in vo)
            ctx.check(k_old and not k_new and v_new, "C20-PROV-memo", "%s#map.insert@%d" % (b["id"], n),
                      "a memo entry is not old -> new (key from the old object: %s, key from a created object: %s, value from a created object: %s): an object reached twice "
                      "is copied twice and references to it are not shared in the target" % (k_old, k_new, v_new), t["span"], detail="map.insert(old, new)")
    ctx.floor("C20-PROV-memo", n, 3, "insertions into the old -> new memo (clone_ref, clone_plainref, clone_rcref)")
    # ... and what the clone methods hand back is the new reference (from the memo or freshly created), never the old one
    m = 0
    for name, b in sorted(imp.items()):
        fl = Flow(b)
        from flow import PASS_LAST
        pt = PASS_LAST + ("get_ref", "get_inner", "get_plain_ref", "from_id")
        for bi, t in F.calls(b):
            if last_seg(F.callee_name(t)) == "new" and ("RcRef" in F.callee_name(t) or "Ref::" in F.callee_name(t)) and t["args"]:
                l = arg_local(t, 0)
                ats = fl.origins(l, passthrough=pt) if l is not None else []
                new_ = any(a[0] == "call" and (last_seg(a[1]) in NEW or (last_seg(a[1]) == "get" and "HashMap" in a[1])) for a in ats)
                old_ = any(a[0] == "arg" and a[1] >= 2 for a in ats) and not new_
                m += 1
                ctx.check(new_ and not old_, "C20-PROV-memo", "%s#returned-ref@%d" % (b["id"], m), "a clone method builds the reference it returns from the old object's number: the "
                          "imported object is referred to by a number of the source document", t["span"], detail="returned reference = memo value / created reference")
    ctx.floor("C20-PROV-memo", m, 2, "references built by the clone methods")


def rule_once(ctx, f, imp):
    ctx.rule("C20-ONCE", "an old object that already has an entry in the old -> new memo is never created (or promised) again: on the hit branch of "
             "every memo look-up no create / promise is reachable")
    n = 0
    for name, b in sorted(imp.items()):
        fl = Flow(b)
        cfg = CFG(b)
        makes = [(bi, t) for bi, t in F.calls(b) if last_seg(F.callee_name(t)) in ("create", "promise") and "Updater" in (F.callee_name(t) + str(t.get("trait")))]
        for bi, t in F.calls(b):
            if last_seg(F.callee_name(t)) != "get" or "HashMap" not in F.callee_name(t) or t.get("target") is None:
                continue
            fs = set()
            fl.origins(arg_local(t, 0), fields=fs)
            if "map" not in fs:
                continue
            # the test of the look-up's outcome: directly (`if let Some(..) = map.get(..)`) or after `.copied()` / `.cloned()`
            swb = None
            for i2, bb2 in enumerate(b["blocks"]):
                t2 = bb2["term"]
                if t2["k"] != "switch" or not cfg.dominates(bi, i2):
                    continue
                dl = F.op_local(t2["discr"])
                for s2 in bb2["stmts"]:
                    if s2[0] == "assign" and s2[1] == [dl] and s2[2][0] == "discr" and "Option<" in b["locals"][s2[2][1][0]]["s"] and \
                            any(a[0] == "call" and a[2] == bi for a in fl.origins(s2[2][1][0], passthrough=("copied", "cloned"))):
                        if swb is None or cfg.dominates(i2, swb):
                            swb = i2
            if swb is None:
                continue
            sw = b["blocks"][swb]["term"]
            n += 1
            arms = {a[0]: a[1] for a in sw["arms"]}
            hit = arms.get(1, sw["otherwise"])
            miss = arms.get(0, sw["otherwise"])
            if hit == miss:
                continue
            reach = cfg.reachable_from(hit, avoid={swb}) | {hit}
            again = [m for m, mt in makes if m in reach]
            ctx.check(not again, "C20-ONCE", "%s#memo-hit" % b["id"], "an object found in the memo can still reach create / promise: an object copied once (for example through "
                      "an untyped reference) and met again is copied a second time, and what was shared in the source is no longer shared in the target", t["span"],
                      detail="hit branch of map.get(old) reaches no create / promise")
    ctx.floor("C20-ONCE", n, 3, "memo look-ups (clone_ref, clone_plainref, clone_rcref)")


def rule_pair2(ctx, f, imp):
    ctx.rule("C20-PAIR2", "a look-up in the typed memo (rcrefs) is never unwrapped: objects copied through untyped references are in `map` only")
    n = 0
    for name, b in sorted(imp.items()):
        fl = Flow(b)
        for bi, t in F.calls(b):
            if last_seg(F.callee_name(t)) in ("unwrap", "expect"):
                l = arg_local(t, 0)
                fs = set()
                ats = fl.origins(l, fields=fs) if l is not None else []
                if any(a[0] == "call" and last_seg(a[1]) == "get" and "HashMap" in a[1] for a in ats) and "rcrefs" in fs:
                    ctx.bad("C20-PAIR2", b["id"] + "#rcrefs-unwrap", "rcrefs.get(..) is unwrapped: panics for an object first copied by clone_ref / clone_plainref and "
                            "then met again through a typed reference", t["span"])
        gets = [t for bi, t in F.calls(b) if last_seg(F.callee_name(t)) == "get" and "HashMap" in F.callee_name(t)]
        for t in gets:
            fs = set()
            fl.origins(arg_local(t, 0), fields=fs)
            if "rcrefs" in fs:
                n += 1
                ctx.ok("C20-PAIR2", b["id"] + "#rcrefs-get", "rcrefs.get result is matched, not unwrapped")
    ctx.floor("C20-PAIR2", n, 1, "look-ups in the typed memo")


def rule_kinds(ctx, f):
    ctx.rule("C20-SIB", "every operator that names a resource (gs Tf Do cs CS scn SCN BDC DP sh) has an arm in deep_clone_op that copies the named entry "
             "from the matching map of the source Resources into the new Resources; every Resources map is copied by some arm")
    b = f.body("content::deep_clone_op")
    if b is None:
        ctx.lost("C20-SIB", "content::deep_clone_op")
        return
    cfg = CFG(b)
    vs = {v["vi"]: v["name"] for v in f.adts["content::Op"]["variants"]}
    sws = enum_switches(b, "content::Op", f)
    if not ctx.floor("C20-SIB", len(sws), 1, "switch on the operator in deep_clone_op"):
        return
    i, pl, arms, other = sws[0]
    ents = {vs[k]: tg for k, tg in arms.items()}
    ents["_"] = other
    regs = arm_regions(cfg, ents)
    res_fields = {fl["name"] for fl in f.adts["object::types::Resources"]["variants"][0]["fields"]}

    def fields_touched(body, blocks):
        got = {"old": set(), "new": set()}
        for r in blocks:
            blk = body["blocks"][r]
            places = []
            for s in blk["stmts"]:
                if s[0] == "assign":
                    rv = s[2]
                    if rv[0] in ("ref", "discr"):
                        places.append(rv[1])
                    elif rv[0] == "use" and F.op_place(rv[1]):
                        places.append(F.op_place(rv[1]))
            t = blk["term"]
            if t["k"] == "call":
                for a in t["args"]:
                    if F.op_place(a):
                        places.append(F.op_place(a))
            for p in places:
                ty = body["locals"][p[0]]["s"]
                for e in p[1:]:
                    if e[0] == "field" and e[2] in res_fields:
                        got["new" if "&mut" in ty else "old"].add(e[2])
        return got
    touched_all = set()
    for opname, want in sorted(RES_BY_OP.items()):
        if opname not in ents:
            reg = regs["_"] | {other}
        else:
            reg = regs[opname] | {ents[opname]}
        got = fields_touched(b, reg)
        # helper functions called from the arm with both resource sets
        for r, t in region_calls(b, reg):
            if t.get("resolved_local") and any("Resources" in a["s"] for a in t.get("arg_tys", [])):
                cb = f.body(t["resolved"])
                if cb is not None:
                    g2 = fields_touched(cb, range(len(cb["blocks"])))
                    got["old"] |= g2["old"]
                    got["new"] |= g2["new"]
        touched_all |= got["old"] & got["new"]
        # what is stored under the name: the deep clone of what the source map holds, stored when the name is NOT yet in the new map
        def copies(body, blocks):
            bfl = Flow(body)
            out = []
            blocks = set(blocks)
            for r in sorted(blocks):
                t = body["blocks"][r]["term"]
                if t["k"] != "call" or last_seg(F.callee_name(t)) != "insert" or "HashMap" not in F.callee_name(t) or len(t["args"]) < 3:
                    continue
                fs = set()
                ml = arg_local(t, 0)
                if ml is not None:
                    bfl.origins(ml, fields=fs)
                if want not in fs:
                    continue
                vl = arg_local(t, 2)
                vats = bfl.origins(vl, passthrough=("branch", "from_residual", "unwrap", "into", "from", "map", "ok_or")) if vl is not None else []
                dc = [a for a in vats if a[0] == "call" and (a[3].get("callee") == "object::DeepClone::deep_clone" or last_seg(a[1]) == "deep_clone")]
                from_old = False
                for a in dc:
                    rl = arg_local(a[3], 0)
                    fs2 = set()
                    ra = bfl.origins(rl, fields=fs2) if rl is not None else []
                    from_old = from_old or (want in fs2 and any(x[0] == "call" and last_seg(x[1]) == "get" for x in ra))
                pol = True
                for r2 in sorted(blocks):
                    t2 = body["blocks"][r2]["term"]
                    if t2["k"] == "call" and last_seg(F.callee_name(t2)) == "contains_key" and t2.get("dest") and t2.get("target") is not None:
                        fs3 = set()
                        if arg_local(t2, 0) is not None:
                            bfl.origins(arg_local(t2, 0), fields=fs3)
                        if want in fs3 and CFG(body).dominates(r2, r):
                            pol = pol and r not in ccp_reachable(body, t2["target"], init={t2["dest"][0]: 1}) and r in ccp_reachable(body, t2["target"], init={t2["dest"][0]: 0})
                out.append((t, bool(dc) and from_old, pol))
            return out
        cps = copies(b, reg) if opname in ents else []
        for r, t in region_calls(b, reg):
            if t.get("resolved_local") and any("Resources" in a["s"] for a in t.get("arg_tys", [])):
                cb = f.body(t["resolved"])
                if cb is not None:
                    cps += copies(cb, range(len(cb["blocks"])))
        for k_, (t_, deep, pol) in enumerate(cps):
            ctx.check(deep, "C20-SIB", "deep_clone_op#%s.deep@%d" % (opname, k_), "the `%s` arm stores something other than the deep clone of the source document's %s entry "
                      "(a plain clone keeps references that point into the source document)" % (opname, want), t_["span"], detail="insert(name, old.%s[name].deep_clone(cloner))" % want)
            ctx.check(pol, "C20-SIB", "deep_clone_op#%s.when-missing@%d" % (opname, k_), "the `%s` arm copies the %s entry only when the name is already present in the new "
                      "Resources (or on both sides of that test): a resource that was not copied yet never is" % (opname, want), t_["span"], detail="if !new.%s.contains_key(name) { copy }" % want)
        ok = want in got["old"] and want in got["new"] and opname in ents
        msg = "the `%s` operator names a %s resource, but deep_clone_op has no arm copying it (source maps read: %s, new maps written: %s): the imported page " \
              "refers to a resource it does not have" % (opname, want, sorted(got["old"]), sorted(got["new"]))
        if want not in res_fields:
            msg = "the `%s` operator names a /%s resource, which the Resources model has no map for: the resource is dropped when the page is imported" % (opname, want.capitalize())
        ctx.check(ok, "C20-SIB", "deep_clone_op#" + opname, msg, b["span"], detail="%s -> resources.%s copied" % (opname, want))
    miss = res_fields - touched_all
    ctx.check(not miss, "C20-SIB", "deep_clone_op#all-maps", "Resources maps never copied by any arm: %s" % sorted(miss), b["span"], detail="all %d Resources maps have a copying arm" % len(res_fields))


def rule_closure(ctx, f):
    ctx.rule("C20-G1", "references produced by deep_clone come from the Cloner (clone_plainref / clone_ref / clone_rcref / clone_shared), never from a verbatim "
             "copy of self; derived DeepClone clones every field through deep_clone")
    base = {"object::PlainRef": "clone_plainref", "object::Ref<T>": "clone_ref", "object::RcRef<T>": "clone_rcref"}
    for self_s, meth in base.items():
        b = f.impl_method("object::DeepClone", self_s, "deep_clone")
        if b is None:
            ctx.lost("C20-G1", "<%s as DeepClone>::deep_clone" % self_s)
            continue
        fl = Flow(b)
        ats = fl.origins(0, passthrough=())
        ok = any(a[0] == "call" and a[3].get("callee") == "object::Cloner::" + meth for a in ats) and not any(a[0] == "arg" and a[1] == 1 for a in ats)
        ctx.check(ok, "C20-G1", self_s + "#via-cloner", "deep_clone of %s does not return the Cloner's %s result (a verbatim reference points into the "
                  "source document)" % (self_s, meth), b["span"], detail="-> cloner.%s" % meth)
    b = f.impl_method("object::DeepClone", "object::MaybeRef<T>", "deep_clone")
    if b is not None:
        names = {t.get("callee") for bi, t in F.calls(b)}
        ctx.check({"object::Cloner::clone_shared", "object::Cloner::clone_rcref"} <= names, "C20-G1", "object::MaybeRef<T>#via-cloner",
                  "MaybeRef is not cloned through clone_shared / clone_rcref", b["span"], detail="Direct -> clone_shared, Indirect -> clone_rcref")
    # derived DeepClone: every field operand of the result aggregate comes out of a deep_clone call
    n = 0
    for b in f.bodies.values():
        im = b.get("impl") or {}
        if im.get("trait") != "object::DeepClone" or not b["id"].endswith("::deep_clone") or "derive(DeepClone)" not in (b.get("mac") or []):
            continue
        adt = f.adts.get(im.get("self_adt") or "")
        if not adt:
            continue
        n += 1
        fl = Flow(b)
        bad = []
        for i, j, s in F.stmts(b):
            if s[0] == "assign" and s[2][0] == "aggregate" and s[2][1].get("adt") == im["self_adt"]:
                for fname, op in zip(s[2][1].get("fields", []), s[2][2]):
                    l = F.op_local(op)
                    ats = fl.origins(l, passthrough=("branch", "from_residual", "unwrap")) if l is not None else []
                    if not any(a[0] == "call" and a[3].get("callee") == "object::DeepClone::deep_clone" for a in ats):
                        bad.append("%s.%s" % (s[2][1].get("variant"), fname))
        ctx.check(not bad, "C20-G1", im["self"] + "#derived-fields", "derived DeepClone copies %s without deep_clone" % bad, b["span"], detail="every field via deep_clone")
    ctx.floor("C20-G1", n, 40, "derived DeepClone impls")
    # hand-written container impls: reference-carrying parts of self never flow into the result without a deep_clone / cloner call
    for self_s in ("primitive::Primitive", "primitive::Dictionary", "primitive::PdfStream", "object::Lazy<T>", "object::stream::Stream<I>"):
        b = f.impl_method("object::DeepClone", self_s, "deep_clone")
        if b is None:
            ctx.lost("C20-G1", "<%s as DeepClone>::deep_clone" % self_s)
            continue
        bad = []
        for bb in [b] + f.closures_of(b["id"]):
            fl = Flow(bb)
            for i, j, s in F.stmts(bb):
                if s[0] == "assign" and s[2][0] == "aggregate" and s[2][1].get("variant") in ("Reference", "Dictionary", "Stream", "Array", "Lazy", "PdfStream"):
                    for op in s[2][2]:
                        l = F.op_local(op)
                        if l is None or "PhantomData" in bb["locals"][l]["s"]:
                            continue
                        ats = fl.origins(l, passthrough=("branch", "from_residual", "unwrap", "try_collect", "collect", "map", "into_iter", "iter"))
                        via = any(a[0] == "call" and (a[3].get("callee") in ("object::DeepClone::deep_clone",) or (a[3].get("callee") or "").startswith("object::Cloner::") or
                                                      last_seg(a[1]) in ("try_collect", "collect", "new", "stream_data")) for a in ats)
                        if not via:
                            bad.append(s[2][1].get("variant"))
        ctx.check(not bad, "C20-G1", self_s + "#no-verbatim", "parts %s are copied verbatim" % bad, b["span"], detail="children via deep_clone")
    # Primitive: the variants that carry references (Reference, Array, Dictionary, Stream) each have an arm of their own - a catch-all that
    # returns `self.clone()` builds no aggregate and would slip through the check above
    pb = f.impl_method("object::DeepClone", "primitive::Primitive", "deep_clone")
    if pb is not None:
        from tables import enum_switches
        sws = enum_switches(pb, "primitive::Primitive", f)
        vs = {v["name"]: v["vi"] for v in f.adts["primitive::Primitive"]["variants"]}
        okp = False
        missing = []
        if sws:
            i0, pl0, arms0, other0 = sws[0]
            missing = [n0 for n0 in ("Reference", "Array", "Dictionary", "Stream") if vs[n0] not in arms0 or arms0[vs[n0]] == other0]
            okp = not missing
        ctx.check(okp, "C20-G1", "primitive::Primitive#carrier-arms", "the variants %s have no arm of their own in Primitive::deep_clone: they fall into a catch-all, which can only "
                  "copy them verbatim" % missing, pb["span"], detail="Reference / Array / Dictionary / Stream handled explicitly")
    # the page assembled for the target document: every attribute is the deep_clone of the source page's attribute
    cp = f.body("build::PageBuilder::clone_page")
    if cp is None:
        ctx.lost("C20-G1", "build::PageBuilder::clone_page")
    else:
        cfl = Flow(cp)
        badf = []
        nf = 0
        for i, j, st in F.stmts(cp):
            if st[0] == "assign" and st[2][0] == "aggregate" and st[2][1].get("adt") == "build::PageBuilder":
                for fname, op in zip(st[2][1].get("fields", []), st[2][2]):
                    l = F.op_local(op)
                    if l is None:
                        continue
                    nf += 1
                    ats = cfl.origins(l, passthrough=("branch", "from_residual", "unwrap", "try_collect", "collect", "map", "into_iter", "iter", "unwrap_or_default", "ok_or"))
                    via = any(a[0] == "call" and (a[3].get("callee") == "object::DeepClone::deep_clone" or (a[3].get("callee") or "").startswith("object::Cloner::") or
                                                  last_seg(a[1]) in ("deep_clone_op", "deep_clone")) for a in ats)
                    plain = any(a[0] == "call" and last_seg(a[1]) in ("clone", "to_owned", "to_vec") and "Arc" not in a[1] for a in ats)
                    # only attributes whose type can hold a reference need the cloner (boxes and the rotation are plain numbers; the operations and
                    # the resources are rebuilt by deep_clone_op, see C20-SIB)
                    carrier = any(w in cp["locals"][l]["s"] for w in ("Primitive", "Dictionary", "Ref<", "MaybeRef", "Lazy", "Stream", "RcRef"))
                    if carrier and not via:
                        badf.append(fname)
                    # inheritable attributes are taken through the page's inheriting accessor: the target document gets a fresh page tree, so
                    # what the source page inherited from its /Pages ancestors has to be written into the page itself
                    if fname in ("media_box", "crop_box", "resources"):
                        eff = any(a[0] == "call" and last_seg(a[1]) == fname and "Page" in a[1] for a in ats) or \
                            any(a[0] == "call" and last_seg(a[1]) == fname and "Page" in a[1] for a in cfl.origins(l)) or \
                            (fname == "resources" and any(last_seg(F.callee_name(t0)) == "resources" and "Page" in F.callee_name(t0) for _, t0 in F.calls(cp)))
                        ctx.check(eff, "C20-G1", "PageBuilder::clone_page#effective-" + fname, "the imported page gets the source page's own /%s entry, not the effective one "
                                  "(Page::%s() looks at the ancestors too): a value the page inherited is lost in the target document" % (fname, fname), cp["span"],
                                  detail="%s <- page.%s()" % (fname, fname))
        ctx.floor("C20-G1", nf, 8, "attributes of the page assembled by clone_page")
        ctx.check(not badf, "C20-G1", "PageBuilder::clone_page#fields", "the attributes %s of the imported page are not deep-cloned: references in them keep the object numbers of "
                  "the source document" % badf, cp["span"], detail="every attribute via deep_clone")


def rule_stream_writer(ctx, f):
    ctx.rule("C20-G4", "a copied stream is written with the decode parameters it was read with: Stream::to_pdf_stream decides by the KIND of a filter whether it has "
             "/DecodeParms, never by the value of a parameter (leaving them out when they 'only spell out defaults' drops the others, e.g. /EarlyChange 0)")
    b = None
    for x in f.bodies.values():
        if x["id"].endswith("::to_pdf_stream") and "Stream" in x["id"] and x["kind"] != "Closure":
            b = x
    if b is None:
        ctx.lost("C20-G4", "Stream::to_pdf_stream")
        return
    pfields = set()
    for adt in ("enc::LZWFlateParams", "enc::DCTDecodeParams", "enc::CCITTFaxDecodeParams", "enc::JBIG2DecodeParams"):
        if adt in f.adts:
            pfields |= {fl_["name"] for fl_ in f.adts[adt]["variants"][0]["fields"]}
    bad = set()
    for bb in f.with_closures(b["id"]):
        fl = Flow(bb)
        for i, j, st in F.stmts(bb):
            if st[0] == "assign" and st[2][0] == "binop" and st[2][1] in ("Eq", "Ne", "Lt", "Le", "Gt", "Ge"):
                for o in (st[2][2], st[2][3]):
                    fs = set()
                    if F.op_place(o):
                        Flow._note_fields(F.op_place(o), fs)
                    if F.op_local(o) is not None:
                        fl.origins(F.op_local(o), fields=fs, passthrough=())
                    bad |= fs & pfields
    ctx.check(not bad, "C20-G4", "Stream::to_pdf_stream#params-by-kind", "whether /DecodeParms is written depends on the value of %s: a stream whose other parameters differ from the "
              "defaults loses them when it is written (imported, saved)" % sorted(bad), b["span"], detail="every LZW / Flate / DCT / CCITT / JBIG2 filter writes its parameters")


def rule_streams(ctx, f):
    ctx.rule("C20-G2", "when a stream is cloned its bytes are fetched through the Cloner's source resolver (stream_data) and stored as generated / pending "
             "data; no file range of the source document survives")
    for self_s, good, badv in (("primitive::PdfStream", "Pending", "InFile"), ("object::stream::Stream<I>", "Generated", "Original")):
        b = f.impl_method("object::DeepClone", self_s, "deep_clone")
        if b is None:
            ctx.lost("C20-G2", self_s)
            continue
        fl = Flow(b)
        sd = [t for bi, t in F.calls(b) if last_seg(F.callee_name(t)) == "stream_data"]
        aggs = [s[2][1].get("variant") for i, j, s in F.stmts(b) if s[0] == "assign" and s[2][0] == "aggregate"]
        ok = bool(sd) and good in aggs and badv not in aggs
        ctx.check(ok, "C20-G2", self_s + "#bytes", "the cloned stream keeps a file range of the source document (variants built: %s)" % aggs, b["span"],
                  detail="%s{data: cloner.stream_data(..)}" % good)
    # Importer forwards stream_data to the SOURCE resolver
    for b in f.bodies.values():
        im = b.get("impl") or {}
        if im.get("trait") == "object::Resolve" and im.get("self", "").startswith("build::Importer") and b["id"].endswith("::stream_data"):
            fl = Flow(b)
            ok = False
            for bi, t in F.calls(b):
                if t.get("callee") == "object::Resolve::stream_data":
                    fs = set()
                    fl.origins(arg_local(t, 0), fields=fs)
                    ok = "resolver" in fs
            ctx.check(ok, "C20-G2", "Importer::stream_data#source", "stream bytes are not read through the source resolver", b["span"], detail="self.resolver.stream_data")


def rule_panic(ctx, f, imp):
    ctx.rule("C20-PANIC", "the import path (Importer's Cloner impl, deep_clone_op, PageBuilder::clone_page) contains no panic construct")
    bodies = list(imp.values())
    for nm in ("content::deep_clone_op", "content::copy_properties", "build::PageBuilder::clone_page"):
        b = f.body(nm)
        if b is not None:
            bodies.append(b)
    n = 0
    for b in bodies:
        for bb in [b] + f.closures_of(b["id"]):
            n += 1
            bad = []
            for bi, t in F.calls(bb):
                nm = F.callee_name(t)
                if nm.startswith(PANICS) or (last_seg(nm) in ("unwrap", "expect") and not t.get("resolved_local")):
                    bad.append("%s at %s" % (nm, t["span"]))
                # `map[key]` / `vec[i]` / `slice[a..b]`: Index::index panics on a missing key or an index out of range
                if last_seg(nm) in ("index", "index_mut") and ("ops::Index" in nm or "Index" in (t.get("trait") or "") or "index::Index" in nm):
                    bad.append("%s at %s" % (nm, t["span"]))
            for blk in bb["blocks"]:
                if blk["term"]["k"] == "assert" and not blk["term"]["assert"].startswith(("Misaligned", "NullPointer")):
                    bad.append("%s at %s" % (blk["term"]["assert"], blk["term"]["span"]))
            ctx.check(not bad, "C20-PANIC", bb["id"], "the import path can panic: %s" % bad, bb["span"], detail="no panic construct")
    ctx.floor("C20-PANIC", n, 6, "bodies on the import path")


def rule_compare(ctx, f):
    ctx.rule("C20-G3", "the library's own post-import comparison (ImporterMap::compare_dict) returns `same` exactly when no key of the second dictionary is "
             "left unvisited")
    bs = [b for b in f.bodies.values() if b["id"].endswith("::compare_dict")]
    if not ctx.floor("C20-G3", len(bs), 1, "ImporterMap::compare_dict"):
        return
    for b in bs:
        cfg = CFG(b)
        ies = [(bi, t) for bi, t in F.calls(b) if last_seg(F.callee_name(t)) == "is_empty"]
        ok = False
        for bi, t in ies:
            # the result is used un-negated: no `Not` between is_empty and the returned bool
            fl = Flow(b)
            _, sinks = fl.reaches(t["dest"][0])
            nots = [s for i, j, s in F.stmts(b) if s[0] == "assign" and s[2][0] == "unop" and s[2][1] == "Not" and F.op_local(s[2][2]) is not None and
                    any(a[0] == "call" and a[2] == bi for a in fl.origins(F.op_local(s[2][2]), passthrough=()))]
            ok = not nots
        ctx.check(ok and bool(ies), "C20-G3", b["id"] + "#result", "compare_dict negates `b_unvisited.is_empty()`: equal dictionaries compare as different", b["span"],
                  detail="same && b_unvisited.is_empty()")


def run(ctx):
    f = F.load("default")
    ctx.count("bodies", len(f.bodies))
    imp = importer_bodies(f)
    ctx.floor("C20", len(imp), 4, "Cloner methods of Importer")
    rule_pair1(ctx, f, imp)
    rule_memo_dir(ctx, f, imp)
    rule_pair2(ctx, f, imp)
    rule_once(ctx, f, imp)
    rule_kinds(ctx, f)
    rule_closure(ctx, f)
    rule_streams(ctx, f)
    rule_stream_writer(ctx, f)
    rule_panic(ctx, f, imp)
    rule_compare(ctx, f)
    return ctx.finish(
        "Static analysis of MIR facts of build.rs / content.rs / object/mod.rs / primitive.rs / stream.rs: dominance of the memo insertion over the "
        "recursive copy; absence of unwraps on typed-memo look-ups; arm-wise table of which Resources map each resource-naming operator copies "
        "(oracle: ISO 32000-1 table 33); provenance of references and fields in all DeepClone impls (after macro expansion); provenance of cloned "
        "stream bytes; panic census of the import path. Equality of the copied content is value-level and not decided.",
        ["rustc nightly MIR construction", "mirx exporter", "resource categories of ISO 32000-1 7.8.3 as listed in the rule"])
