"""C04 — serialised objects parse back to the same value.

Decided: token adjacency and literal vocabulary of Primitive::serialize and its helpers at the
writer's placements (ADJ); the escape sets of the string and name writers cover the bytes the
matching reader treats specially, with the escape mechanism the reader undoes (ESC); dictionary
keys go through the name writer; the writers contain no panic construct (PANIC); the hex-string
writer uses the reader's digit alphabet (SIB).
Not decided: numeric text <-> value (an f32 of 2^31 or more prints as an integer token), nesting
depth, stream data.
"""
import facts as F
from cfg import CFG
from flow import Flow, call_sites, arg_local, last_seg
from byteclass import classify, arg_subject, fmt_set, FULL, predicate_sets
from sym import PathSym
from tables import exclusive_regions, region_calls
import adj

PANICS = ("core::panicking::", "std::rt::begin_panic", "core::option::unwrap_failed", "core::result::unwrap_failed", "core::option::expect_failed")


def writer_bodies(f):
    ids = ["primitive::Primitive::serialize", "primitive::serialize_list", "primitive::serialize_name", "primitive::Dictionary::serialize",
           "primitive::PdfString::serialize", "primitive::PdfStream::serialize"]
    return [(i, f.body(i)) for i in ids]


def u8_loop_classes(b, f):
    """for a writer that loops over bytes and matches on each: {byte set -> (escape text written before, raw byte written?)}"""
    cfg = CFG(b)
    res = []
    for i, bb in enumerate(b["blocks"]):
        t = bb["term"]
        if t["k"] == "switch" and t["discr_ty"] == "u8":
            res.append((i, t))
    return cfg, res


def consts_written(b, region):
    """string constants handed to write_fmt / Arguments::from_str inside the region"""
    out = []
    for r in region:
        t = b["blocks"][r]["term"]
        if t["k"] == "call":
            for a in t["args"]:
                c = F.const_str(a)
                if c is not None:
                    out.append(c)
    return out


def rule_esc_string(ctx, f):
    ctx.rule("C04-ESC-str", "the literal-string writer puts a backslash escape before every byte the string reader treats specially "
             "(backslash, both parentheses, CR); strings with bytes >= 0x80 are written in hexadecimal")
    wb = f.body("primitive::PdfString::serialize")
    rb = None
    for x in f.bodies.values():
        if x["id"].endswith("StringLexer::<'a>::next_lexeme"):
            rb = x
    if wb is None or rb is None:
        ctx.lost("C04-ESC-str", "PdfString::serialize / StringLexer::next_lexeme")
        return
    # reader: bytes with an arm of their own in the first-byte switch
    special = set()
    for i, bb in enumerate(rb["blocks"]):
        t = bb["term"]
        if t["k"] == "switch" and t["discr_ty"] == "u8" and any(a[0] == 92 for a in t["arms"]) and len(t["arms"]) < 8:
            special = {a[0] for a in t["arms"]}
    ctx.floor("C04-ESC-str", len(special), 3, "bytes the string reader treats specially")
    cfg = CFG(wb)
    escaped = set()
    for i, bb in enumerate(wb["blocks"]):
        t = bb["term"]
        if t["k"] == "switch" and t["discr_ty"] == "u8":
            arms = {a[0]: a[1] for a in t["arms"]}
            regs = exclusive_regions(cfg, dict(arms, **{"default": t["otherwise"]}))
            for v, tg in arms.items():
                txt = consts_written(wb, regs[v] | {tg})
                if any(x.startswith("\\") for x in txt):
                    escaped.add(v)
    # what is written for a special byte must be something the reader turns back into that byte: either a backslash followed by the raw
    # byte where the reader's escape table maps that character to itself ( \\ \( \) ), or a letter escape INSTEAD of the byte ( \r for CR )
    import json as _json
    import os as _os
    spec = _json.load(open(_os.path.join(_os.path.dirname(_os.path.dirname(_os.path.abspath(__file__))), "spec", "iso32000.json")))
    esc_tab = {ord(k): v for k, v in spec.get("string_escapes", {}).items()}
    wa = {bi for bi, t in F.calls(wb) if last_seg(F.callee_name(t)) == "write_all"}
    loops = cfg.loops()
    nonspecial_escaped = {}
    for i, bb in enumerate(wb["blocks"]):
        t = bb["term"]
        if t["k"] == "switch" and t["discr_ty"] == "u8":
            arms = {a[0]: a[1] for a in t["arms"]}
            regs = exclusive_regions(cfg, dict(arms, **{"default": t["otherwise"]}))
            heads = {h for h, body in loops.items() if i in body}
            for v, tg in arms.items():
                txt = [x for x in consts_written(wb, regs[v] | {tg}) if x.startswith("\\")]
                if v not in special:
                    # seeded C04-9: a byte the reader does not treat specially may still be written as an escape ("keep the output
                    # printable") - then it has to be an escape the reader turns back into that byte
                    if txt:
                        nonspecial_escaped.setdefault(v, (txt, tg))
                    continue
                raw_follows = any(w == tg or w in cfg.reachable_from(tg, avoid=heads) for w in wa)
                good = False
                for x in txt:
                    if x == "\\" and raw_follows and esc_tab.get(v) == v:
                        good = True
                    if len(x) == 2 and not raw_follows and esc_tab.get(ord(x[1])) == v:
                        good = True
                if not good:
                    escaped.discard(v)
                    ctx.bad("C04-ESC-str", "PdfString::serialize#escape-of-%d" % v, "byte %d is written as %s%s, which the string reader does not turn back into %d "
                            "(a backslash before a raw CR is a line continuation and vanishes)" % (v, txt, " + the raw byte" if raw_follows else "", v), t["span"])
    # the same question asked of the paths (the escape may be chosen by `if b == b'\r' { .. } else { .. }` instead of a match arm): for every
    # special byte, on every path of one turn of the loop that the byte can take, what is written is an escape the reader undoes
    def _subj(e):
        e0 = e
        while isinstance(e0, tuple) and e0[0] in ("deref", "ref", "cast", "field", "downcast"):
            e0 = e0[1]
        return isinstance(e0, tuple) and e0[0] == "call" and last_seg(e0[1]) == "next"
    by_byte = {}
    try:
        for S, path in classify(wb, _subj, record_cycles=True, stops=wa):
            if S == FULL:
                continue
            blocks = [x for x in path if x >= 0]
            raw = bool(blocks) and blocks[-1] in wa
            txt = [x for x in consts_written(wb, blocks) if x.startswith("\\")]
            for v in special & set(S):
                okp = any((x == "\\" and raw and esc_tab.get(v) == v) or (len(x) == 2 and not raw and esc_tab.get(ord(x[1])) == v) for x in txt)
                by_byte.setdefault(v, []).append(okp)
    except RuntimeError:
        by_byte = {}
    escaped |= {v for v, oks in by_byte.items() if oks and all(oks)}
    miss = special - escaped
    ctx.check(not miss, "C04-ESC-str", "PdfString::serialize#escapes",
              "bytes %s are special to the string reader but written raw in a literal string (read back differently)" % fmt_set(miss), wb["span"],
              detail="escaped %s covers reader-special %s" % (fmt_set(escaped), fmt_set(special)))
    # hex switch: closure testing b >= 0x80
    hexset = set()
    for c in f.closures_of(wb["id"]):
        tr, fa, ot = predicate_sets(c, arg_subject(2))
        hexset |= tr
    ctx.check(hexset == set(range(128, 256)), "C04-ESC-str", "PdfString::serialize#hex-switch",
              "strings are written in hexadecimal when they contain %s (expected: any byte >= 0x80)" % fmt_set(hexset), wb["span"], detail=">= 0x80 -> <hex>")
    lh = [t for bi, t in F.calls(wb) if "new_lower_hex" in t.get("callee_full", "") or "new_upper_hex" in t.get("callee_full", "")]
    ctx.check(bool(lh), "C04-SIB", "PdfString::serialize#hex-digits", "the hex form is not written with {:02x}", wb["span"], detail="{:02x}: digits 0-9a-f, within the reader's digit set")
    # two digits per byte: the format carries the width 02 (a bare {:x} writes 5 as one digit and shifts every following nibble)
    import re as _re
    a = adj.get_adj(f, adj.OBJECT_KEYWORDS)
    fn = a.ast.fn_for_body(wb)
    if fn is None:
        ctx.lost("C04-SIB", "syntax tree of PdfString::serialize")
    else:
        def _walk(n):
            if isinstance(n, dict):
                yield n
                for v2 in n.values():
                    yield from _walk(v2)
            elif isinstance(n, list):
                for x2 in n:
                    yield from _walk(x2)
        fmts = [n["fmt"] for n in _walk(fn["body"]) if n.get("k") == "macro" and n.get("fmt")]
        hexes = [x for x in fmts if _re.search(r"\{[^}]*[xX]\}", x)]
        ctx.check(bool(hexes) and all(_re.search(r"\{:02[xX]\}", x) for x in hexes), "C04-SIB", "PdfString::serialize#hex-width",
                  "bytes of a hex string are not written as exactly two digits (formats: %s): the reader pairs digits two by two" % hexes, wb["span"], detail="{:02x}")
        # octal escapes: the reader takes up to three octal digits after the backslash, greedily - an escape of fewer digits swallows a
        # following '0'..'7' of the string, so every octal placeholder carries the width 03
        octs = [x for x in fmts if _re.search(r"\{[^}]*o\}", x)]
        _short = lambda x: any(not _re.fullmatch(r"\{[^:}]*:03o\}", ph) for ph in _re.findall(r"\{[^}]*o\}", x))
        assert _short(r"\{:o}") and _short(r"\{:3o}") and not _short(r"\{:03o}"), "self-test of the octal-width rule"
        ctx.check(not any(_short(x) for x in octs), "C04-SIB", "PdfString::serialize#octal-width",
                  "an octal escape is written with fewer than three digits (formats: %s): the string reader reads up to three octal digits greedily, so "
                  "`\\1` followed by the character `1` comes back as the single byte 0o11" % [x for x in octs if _short(x)], wb["span"],
                  detail="octal placeholders %s all `{:03o}` (positive example `\\{:o}` is flagged)" % (octs or "none"))
        for v, (txt, tg) in sorted(nonspecial_escaped.items()):
            letter = any(len(x) == 2 and esc_tab.get(ord(x[1])) == v for x in txt)
            octal = bool(octs) and not any(_short(x) for x in octs)
            ctx.check(letter or octal, "C04-ESC-str", "PdfString::serialize#escape-of-%d" % v,
                      "byte %d, which the reader does not treat specially, is written as the escape %s: neither the letter escape of that byte nor a "
                      "three-digit octal code" % (v, txt), wb["span"], detail="non-special byte %d escaped as %s" % (v, txt))


def rule_esc_name(ctx, f):
    ctx.rule("C04-ESC-name", "the name writer writes raw only regular characters other than '#' in 0x21..0x7e and everything else as #xx; "
             "dictionary keys go through the same writer")
    wb = f.body("primitive::serialize_name")
    if wb is None:
        ctx.lost("C04-ESC-name", "primitive::serialize_name")
        return
    ws, delim = adj.reader_classes(f)

    def subj(e):
        e0 = e
        while isinstance(e0, tuple) and e0[0] in ("deref", "ref", "cast", "field", "downcast"):
            e0 = e0[1]
        return isinstance(e0, tuple) and e0[0] == "call" and last_seg(e0[1]) == "next"
    raw, esc = set(), set()
    wa = {bi for bi, t in F.calls(wb) if last_seg(F.callee_name(t)) == "write_all"}
    hx = {bi for bi, t in F.calls(wb) if "new_lower_hex" in t.get("callee_full", "") or "new_upper_hex" in t.get("callee_full", "")}
    for S, path in classify(wb, subj, record_cycles=True, stops=wa | hx):
        last = [x for x in path if x >= 0][-1]
        if S == FULL:
            continue
        if last in wa:
            raw |= set(S)
        elif last in hx:
            esc |= set(S)
    bad = {b for b in raw if b in ws or b in delim or b == 35 or b < 33 or b > 126}
    ctx.check(bool(raw) and not bad, "C04-ESC-name", "serialize_name#raw-set",
              "bytes %s are written raw in a name although the name reader ends the token there or decodes them" % fmt_set(bad), wb["span"],
              detail="raw: %s" % fmt_set(raw))
    ctx.check((raw | esc) == set(range(256)) and not (raw & esc), "C04-ESC-name", "serialize_name#total",
              "raw %s / #xx %s do not partition the byte values" % (fmt_set(raw), fmt_set(esc)), wb["span"], detail="#xx for the other %d byte values" % len(esc))
    # reader side decodes #xx (checked in C03); the escape mechanism is '#'
    consts = [F.const_str(a) for bi, t in F.calls(wb) for a in t["args"] if F.const_str(a) is not None]
    tmpl = [F.const_bytes(o) for i, j, s in F.stmts(wb) if s[0] == "assign" and s[2][0] == "use" for o in [s[2][1]] if F.const_bytes(o)]
    ctx.check(any("#" in x for x in consts + tmpl), "C04-ESC-name", "serialize_name#mechanism", "names are not escaped with '#'", wb["span"], detail="escape mechanism #xx")
    # ... followed by exactly two hexadecimal digits (the reader takes two)
    import re as _re
    a2 = adj.get_adj(f, adj.OBJECT_KEYWORDS)
    fn2 = a2.ast.fn_for_body(wb)
    if fn2 is None:
        ctx.lost("C04-ESC-name", "syntax tree of serialize_name")
    else:
        def _walk2(n):
            if isinstance(n, dict):
                yield n
                for v2 in n.values():
                    yield from _walk2(v2)
            elif isinstance(n, list):
                for x2 in n:
                    yield from _walk2(x2)
        hexes2 = [n["fmt"] for n in _walk2(fn2["body"]) if n.get("k") == "macro" and n.get("fmt") and _re.search(r"\{[^}]*[xX]\}", n["fmt"])]
        ctx.check(bool(hexes2) and all(_re.search(r"#\{:02[xX]\}", x) for x in hexes2), "C04-ESC-name", "serialize_name#two-digits", "an escaped byte of a name is not written as `#` and "
                  "exactly two hex digits (formats: %s): a byte below 0x10 comes out as `#9`, which the reader cannot decode" % hexes2, wb["span"], detail="#{:02x}")
    db = f.body("primitive::Dictionary::serialize")
    if db is None:
        ctx.lost("C04-ESC-name", "primitive::Dictionary::serialize")
    else:
        uses = [t for bi, t in F.calls(db) if F.callee_name(t) == "primitive::serialize_name"]
        disp = [t for bi, t in F.calls(db) if "Argument" in F.callee_name(t) and "primitive::Name" in t.get("callee_full", "")]
        ctx.check(bool(uses) and not disp, "C04-ESC-name", "Dictionary::serialize#keys", "dictionary keys are written with Display (no escaping) instead of the name writer",
                  db["span"], detail="keys via serialize_name")


def rule_dict_reader(ctx, f):
    ctx.rule("C04-DICT", "the dictionary reader stores every key / value pair it reads: each turn of its loop that parses a value reaches the insert (an entry whose "
             "value is null is an entry - `/Next null` written, `/Next null` read)")
    b = f.body("parser::parse_dictionary_object")
    if b is None:
        ctx.lost("C04-DICT", "parser::parse_dictionary_object")
        return
    cfg = CFG(b)
    loops = cfg.loops()
    vals = [bi for bi, t in F.calls(b) if last_seg(F.callee_name(t)) in ("parse_with_lexer_ctx", "_parse_with_lexer_ctx") and any(bi in body for body in loops.values())]
    ins = [bi for bi, t in F.calls(b) if last_seg(F.callee_name(t)) == "insert" and "Dictionary" in F.callee_name(t) + " ".join(a["s"] for a in t.get("arg_tys", []))]
    ctx.floor("C04-DICT", len(vals), 1, "value parse inside the dictionary loop")
    for v in vals:
        heads = [h for h, body in loops.items() if v in body]
        h = min(heads, key=lambda x: len(loops[x]))
        backs = [a for a, h2 in cfg.back_edges() if h2 == h]
        # from the successful value parse, every way round the loop passes the insert (error exits leave the function)
        ok = bool(ins) and bool(backs) and all(cfg.all_paths_pass(b["blocks"][v]["term"]["target"], [a], set(ins)) for a in backs)
        ctx.check(ok, "C04-DICT", "parse_dictionary_object#every-entry", "a value that was parsed can be dropped without being stored in the dictionary (a test between the parse and the "
                  "insert): the entry is written but does not read back", b["blocks"][v]["term"]["span"], detail="dict.insert(key, value) on every path after the value parse")


def rule_panic(ctx, f):
    ctx.rule("C04-PANIC", "the value writers contain no panic construct (panic!/assert!/unwrap/expect/indexing)")
    n = 0
    for bid, b in writer_bodies(f):
        if b is None:
            ctx.lost("C04-PANIC", bid)
            continue
        n += 1
        bad = []
        for bb in [b] + f.closures_of(bid):
            for bi, t in F.calls(bb):
                nm = F.callee_name(t)
                if nm.startswith(PANICS) or (last_seg(nm) in ("unwrap", "expect") and not t.get("resolved_local")) or \
                        (last_seg(nm) in ("index", "index_mut") and "Range" not in nm):
                    bad.append("%s at %s" % (nm, t["span"]))
            for blk in bb["blocks"]:
                if blk["term"]["k"] == "assert" and not blk["term"]["assert"].startswith(("Misaligned", "NullPointer")):
                    bad.append("%s at %s" % (blk["term"]["assert"], blk["term"]["span"]))
        ctx.check(not bad, "C04-PANIC", bid, "the writer can panic: %s" % bad, b["span"], detail="no panic construct")
    ctx.floor("C04-PANIC", n, 6, "value writer bodies")


def rule_depth(ctx, f):
    ctx.rule("C04-DEPTH", "reading back costs one unit of the parser's nesting budget per array level and per dictionary level alike: on every call cycle of the "
             "object parser exactly one call passes `budget - 1`, all others hand the budget on unchanged (a level charged twice halves the nesting the "
             "reader accepts of what the writer emits)")
    from recursion import decremented_from
    names = ("parser::_parse_with_lexer_ctx", "parser::parse_dictionary_object", "parser::parse_with_lexer_ctx")
    bodies = {n: f.body(n) for n in names}
    if any(v is None for v in bodies.values()):
        ctx.lost("C04-DEPTH", "object parser functions")
        return
    edges = {}
    for n, b in bodies.items():
        fl = Flow(b)
        ints = [k for k in range(1, b["argc"] + 1) if b["locals"][k]["s"] == "usize"]
        for bi, t in F.calls(b):
            c = t.get("resolved") or ""
            if c in bodies:
                cb = bodies[c]
                kpos = [k for k in range(1, cb["argc"] + 1) if cb["locals"][k]["s"] == "usize"]
                if not kpos or not ints:
                    continue
                a = t["args"][kpos[-1] - 1]
                dec = any(decremented_from(b, fl, a, ku) for ku in ints)
                # a budget re-bound before the call (`let max_depth = max_depth.checked_sub(1)..?`) shows up the same way
                edges.setdefault((n, c), []).append((1 if dec else 0, t["span"]))
    # cycles: entry(_parse) -> dict -> parse_with -> _parse ; _parse -> parse_with -> _parse
    def cost(path):
        tot = []
        for x, y in zip(path, path[1:]):
            es = edges.get((x, y))
            if not es:
                return None
            tot.append(max(e[0] for e in es))
        return sum(tot)
    P, D, W = names[0], names[1], names[2]
    cyc = {"dictionary level": [P, D, W, P], "array level": [P, W, P]}
    n = 0
    for what, path in cyc.items():
        c = cost(path)
        if c is None:
            continue
        n += 1
        ctx.check(c == 1, "C04-DEPTH", "parser#" + what.replace(" ", "-"), "a %s costs %d units of the nesting budget (expected 1)" % (what, c), bodies[P]["span"],
                  detail="%s: one decrement on the cycle %s" % (what, " -> ".join(x.split("::")[-1] for x in path)))
    ctx.floor("C04-DEPTH", n, 2, "call cycles of the object parser (array level, dictionary level)")


def run(ctx):
    f = F.load("default")
    ctx.count("bodies", len(f.bodies))
    adj.rule_framing(ctx, f, "C04")
    rule_esc_string(ctx, f)
    rule_esc_name(ctx, f)
    rule_panic(ctx, f)
    rule_dict_reader(ctx, f)
    rule_depth(ctx, f)
    return ctx.finish(
        "Static analysis: writers are summarised as regular expressions over the reader's byte classes (syntax tree for format literals, "
        "MIR for resolved callees and placeholder types) and checked for token adjacency and vocabulary; escape sets of the string and name "
        "writers are extracted exactly (byte-class refinement) and compared with the reader's special bytes; panic census of the writer "
        "bodies. Numeric text <-> value, depth and stream data are not decided.",
        ["rustc nightly MIR construction", "mirx exporter", "astx (syn)", "the reader's byte classes as extracted for C03"])
