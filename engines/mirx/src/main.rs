// mirx — MIR fact exporter for the /verif rule library.
//
// Injected with RUSTC_WORKSPACE_WRAPPER under `cargo +nightly check`.  For every crate whose
// name is listed in MIRX_CRATES (default "pdf") it writes one JSON document
// `$MIRX_OUT/<crate>-<crate_type>.json` with the ADT table, the impl table and every MIR body
// (statements, terminators, resolved callees, decoded constants).  Other crates are compiled
// untouched.  One write per process.
#![feature(rustc_private)]
#![allow(clippy::all)]

extern crate rustc_abi;
extern crate rustc_driver;
extern crate rustc_hir;
extern crate rustc_interface;
extern crate rustc_middle;
extern crate rustc_span;

use rustc_driver::Compilation;
use rustc_hir::def::DefKind;
use rustc_hir::def_id::{DefId, LOCAL_CRATE};
use rustc_interface::interface::Compiler;
use rustc_middle::mir::{
    self, AggregateKind, BasicBlockData, Body, Const, ConstValue, Operand, Place, ProjectionElem,
    Rvalue, StatementKind, TerminatorKind, UnwindAction,
};
use rustc_middle::ty::{self, Ty, TyCtxt, TypingEnv};
use rustc_span::Span;
use std::fmt::Write as _;

mod json;
use json::J;

struct Cb;

impl rustc_driver::Callbacks for Cb {
    fn after_analysis<'tcx>(&mut self, _c: &Compiler, tcx: TyCtxt<'tcx>) -> Compilation {
        let name = tcx.crate_name(LOCAL_CRATE).to_string();
        let wanted = std::env::var("MIRX_CRATES").unwrap_or_else(|_| "pdf".to_string());
        if wanted.split(',').any(|w| w == name) {
            if let Ok(out) = std::env::var("MIRX_OUT") {
                let kind = if tcx.sess.opts.test { "test".to_string() } else {
                    format!("{:?}", tcx.crate_types().first()).to_lowercase()
                        .replace("some(", "").replace(")", "")
                };
                let doc = export(tcx, &name);
                let path = format!("{}/{}-{}.json", out, name, kind);
                let tmp = format!("{}.tmp{}", path, std::process::id());
                std::fs::write(&tmp, doc).expect("mirx: write");
                std::fs::rename(&tmp, &path).expect("mirx: rename");
            }
        }
        Compilation::Continue
    }
}

fn main() {
    let args: Vec<String> = std::env::args().collect();
    // argv[0] = mirx, argv[1] = real rustc (workspace wrapper protocol), rest = rustc args
    let mut rargs = vec!["rustc".to_string()];
    rargs.extend(args.into_iter().skip(2));
    rustc_driver::run_compiler(&rargs, &mut Cb);
}

fn span_str(tcx: TyCtxt<'_>, sp: Span) -> String {
    let sp = sp.source_callsite();
    let sm = tcx.sess.source_map();
    let lo = sm.lookup_char_pos(sp.lo());
    let file = match &lo.file.name {
        rustc_span::FileName::Real(r) => match r.local_path() {
            Some(p) => p.display().to_string(),
            None => format!("{:?}", r),
        },
        other => format!("{:?}", other),
    };
    format!("{}:{}:{}", file, lo.line, lo.col.0 + 1)
}

fn mac_chain(sp: Span) -> Vec<String> {
    let mut v = Vec::new();
    for e in sp.macro_backtrace() {
        let s = match e.kind {
            rustc_span::ExpnKind::Macro(k, name) => match k {
                rustc_span::MacroKind::Derive => format!("derive({})", name),
                rustc_span::MacroKind::Attr => format!("#[{}]", name),
                rustc_span::MacroKind::Bang => format!("{}!", name),
            },
            rustc_span::ExpnKind::Desugaring(d) => format!("desugar({:?})", d),
            rustc_span::ExpnKind::AstPass(p) => format!("astpass({:?})", p),
            rustc_span::ExpnKind::Root => "root".to_string(),
        };
        v.push(s);
    }
    v
}

fn ty_json<'tcx>(tcx: TyCtxt<'tcx>, t: Ty<'tcx>) -> J {
    let mut o = J::obj();
    o.set("s", J::Str(format!("{}", t)));
    let k = match t.kind() {
        ty::Bool => "bool",
        ty::Char => "char",
        ty::Int(_) => "int",
        ty::Uint(_) => "uint",
        ty::Float(_) => "float",
        ty::Adt(d, _) => {
            o.set("adt", J::Str(tcx.def_path_str(d.did())));
            "adt"
        }
        ty::Ref(_, inner, m) => {
            o.set("to", J::Str(format!("{}", inner)));
            if let ty::Adt(d, _) = inner.kind() {
                o.set("adt", J::Str(tcx.def_path_str(d.did())));
            }
            if m.is_mut() { "refmut" } else { "ref" }
        }
        ty::RawPtr(..) => "ptr",
        ty::Slice(_) => "slice",
        ty::Array(..) => "array",
        ty::Str => "str",
        ty::Tuple(_) => "tuple",
        ty::Closure(d, _) => {
            o.set("closure", J::Str(tcx.def_path_str(*d)));
            "closure"
        }
        ty::FnDef(d, _) => {
            o.set("fn", J::Str(tcx.def_path_str(*d)));
            "fndef"
        }
        ty::FnPtr(..) => "fnptr",
        ty::Param(_) => "param",
        ty::Dynamic(..) => "dyn",
        ty::Never => "never",
        ty::Alias(..) => "alias",
        _ => "other",
    };
    o.set("k", J::Str(k.to_string()));
    o
}

fn place_json<'tcx>(tcx: TyCtxt<'tcx>, body: &Body<'tcx>, p: &Place<'tcx>) -> J {
    let mut v = vec![J::Int(p.local.as_usize() as i128)];
    let mut pty = mir::PlaceTy::from_ty(body.local_decls[p.local].ty);
    for e in p.projection.iter() {
        let j = match e {
            ProjectionElem::Deref => J::Arr(vec![J::s("deref")]),
            ProjectionElem::Field(f, _) => {
                let mut name = format!("{}", f.as_usize());
                if let ty::Adt(d, _) = pty.ty.kind() {
                    let vi = pty.variant_index.unwrap_or(rustc_abi::FIRST_VARIANT);
                    if d.variants().len() > vi.as_usize() {
                        let var = d.variant(vi);
                        if var.fields.len() > f.as_usize() {
                            name = var.fields[f].name.to_string();
                        }
                    }
                }
                J::Arr(vec![J::s("field"), J::Int(f.as_usize() as i128), J::Str(name)])
            }
            ProjectionElem::Downcast(name, vi) => {
                let n = match name {
                    Some(n) => n.to_string(),
                    None => format!("{}", vi.as_usize()),
                };
                J::Arr(vec![J::s("downcast"), J::Str(n), J::Int(vi.as_usize() as i128)])
            }
            ProjectionElem::Index(l) => J::Arr(vec![J::s("index"), J::Int(l.as_usize() as i128)]),
            ProjectionElem::ConstantIndex { offset, min_length, from_end } => J::Arr(vec![
                J::s("cindex"),
                J::Int(offset as i128),
                J::Int(min_length as i128),
                J::Bool(from_end),
            ]),
            ProjectionElem::Subslice { from, to, from_end } => J::Arr(vec![
                J::s("subslice"),
                J::Int(from as i128),
                J::Int(to as i128),
                J::Bool(from_end),
            ]),
            ProjectionElem::OpaqueCast(_) => J::Arr(vec![J::s("opaque")]),
            ProjectionElem::UnwrapUnsafeBinder(_) => J::Arr(vec![J::s("unbind")]),
        };
        v.push(j);
        pty = pty.projection_ty(tcx, e);
    }
    J::Arr(v)
}

fn read_alloc_bytes<'tcx>(
    tcx: TyCtxt<'tcx>,
    alloc_id: rustc_middle::mir::interpret::AllocId,
    off: usize,
    len: usize,
) -> Option<Vec<u8>> {
    match tcx.try_get_global_alloc(alloc_id)? {
        rustc_middle::mir::interpret::GlobalAlloc::Memory(a) => {
            let a = a.inner();
            if off + len > a.len() {
                return None;
            }
            Some(a.inspect_with_uninit_and_ptr_outside_interpreter(off..off + len).to_vec())
        }
        _ => None,
    }
}

/// raw bytes (hex) of a small constant allocation and, one or two levels deep, of the
/// allocations it points to — lets rules read promoted constants such as `&Some(&b'%')` or
/// `&(b'0'..=b'7')` without interpreting their type
fn dump_alloc<'tcx>(tcx: TyCtxt<'tcx>, alloc_id: rustc_middle::mir::interpret::AllocId, depth: usize) -> J {
    let mut o = J::obj();
    if let Some(rustc_middle::mir::interpret::GlobalAlloc::Memory(a)) = tcx.try_get_global_alloc(alloc_id) {
        let a = a.inner();
        let n = a.len().min(64);
        let raw = a.inspect_with_uninit_and_ptr_outside_interpreter(0..n);
        let mut hex = String::new();
        for b in raw {
            let _ = write!(hex, "{:02x}", b);
        }
        o.set("hex", J::Str(hex));
        o.set("len", J::Int(a.len() as i128));
        if depth > 0 {
            let mut kids = Vec::new();
            for (po, pp) in a.provenance().ptrs().iter() {
                let mut k = dump_alloc(tcx, pp.alloc_id(), depth - 1);
                k.set("at", J::Int(po.bytes() as i128));
                kids.push(k);
            }
            if !kids.is_empty() {
                o.set("refs", J::Arr(kids));
            }
        }
    }
    o
}

fn bytes_to_json(b: &[u8]) -> J {
    // bytes as latin-1 string: every char is one byte; the JSON writer escapes non-ASCII as \u00XX
    J::Str(b.iter().map(|&c| c as char).collect())
}

fn const_json<'tcx>(tcx: TyCtxt<'tcx>, env: TypingEnv<'tcx>, c: &mir::ConstOperand<'tcx>) -> J {
    let mut o = J::obj();
    let t = c.const_.ty();
    o.set("ty", J::Str(format!("{}", t)));
    if let ty::FnDef(d, args) = t.kind() {
        o.set("fn", J::Str(tcx.def_path_str(*d)));
        o.set("fnargs", J::Str(format!("{:?}", args)));
        return o;
    }
    let val: Option<ConstValue> = match c.const_ {
        Const::Val(v, _) => Some(v),
        _ => c.const_.eval(tcx, env, c.span).ok(),
    };
    let Some(v) = val else {
        o.set("uneval", J::Str(format!("{}", c.const_)));
        return o;
    };
    match v {
        ConstValue::Scalar(s) => {
            match s {
                rustc_middle::mir::interpret::Scalar::Int(i) => {
                    if t.is_bool() {
                        o.set("bool", J::Bool(i.to_bits_unchecked() != 0));
                    } else if t.is_char() {
                        o.set("int", J::Int(i.to_bits_unchecked() as i128));
                        o.set("char", J::Bool(true));
                    } else if t.is_floating_point() {
                        let bits = i.to_bits_unchecked();
                        let f = if i.size().bytes() == 4 {
                            f32::from_bits(bits as u32) as f64
                        } else {
                            f64::from_bits(bits as u64)
                        };
                        o.set("float", J::Str(format!("{}", f)));
                    } else if t.is_integral() {
                        let bits = i.to_bits_unchecked();
                        let size = i.size().bits();
                        let n: i128 = if t.is_signed() && size < 128 {
                            let shift = 128 - size as u32;
                            ((bits << shift) as i128) >> shift
                        } else {
                            bits as i128
                        };
                        o.set("int", J::Int(n));
                    } else {
                        // C-like enum or newtype around an integer
                        o.set("bits", J::Int(i.to_bits_unchecked() as i128));
                    }
                }
                rustc_middle::mir::interpret::Scalar::Ptr(p, _) => {
                    // &[u8; N] byte-string literal or &T static
                    let (prov, off) = p.prov_and_relative_offset();
                    let inner = t.builtin_deref(true);
                    if let Some(inner) = inner {
                        if let ty::Array(et, n) = inner.kind() {
                            if *et == tcx.types.u8 {
                                if let Some(n) = n.try_to_target_usize(tcx) {
                                    if let Some(b) = read_alloc_bytes(tcx, prov.alloc_id(), off.bytes() as usize, n as usize) {
                                        o.set("bytes", bytes_to_json(&b));
                                    }
                                }
                            }
                        }
                    }
                    // &&[u8] / &&str (promoted reference to a slice constant): follow the fat pointer
                    if !o.has("bytes") {
                        if let Some(inner) = inner {
                            if let Some(inner2) = inner.builtin_deref(true) {
                                let is_str = inner2.is_str();
                                let is_u8 = matches!(inner2.kind(), ty::Slice(e) if *e == tcx.types.u8);
                                if is_str || is_u8 {
                                    if let Some(rustc_middle::mir::interpret::GlobalAlloc::Memory(a)) = tcx.try_get_global_alloc(prov.alloc_id()) {
                                        let a = a.inner();
                                        let o0 = off.bytes() as usize;
                                        if o0 + 16 <= a.len() {
                                            let raw = a.inspect_with_uninit_and_ptr_outside_interpreter(o0..o0 + 16);
                                            let inner_off = u64::from_le_bytes(raw[0..8].try_into().unwrap()) as usize;
                                            let len = u64::from_le_bytes(raw[8..16].try_into().unwrap()) as usize;
                                            for (po, pp) in a.provenance().ptrs().iter() {
                                                if po.bytes() as usize == o0 {
                                                    if let Some(b) = read_alloc_bytes(tcx, pp.alloc_id(), inner_off, len) {
                                                        if is_str {
                                                            o.set("str", J::Str(String::from_utf8_lossy(&b).to_string()));
                                                        } else {
                                                            o.set("bytes", bytes_to_json(&b));
                                                        }
                                                    }
                                                }
                                            }
                                        }
                                    }
                                }
                            }
                        }
                    }
                    if !o.has("bytes") && !o.has("str") {
                        o.set("ptr", J::Bool(true));
                        o.set("alloc", dump_alloc(tcx, prov.alloc_id(), 2));
                        // `&Enum::Variant` (promoted operand of a comparison): name the variant
                        if let Some(inner) = inner {
                            if let ty::Adt(def, _) = inner.kind() {
                                if def.is_enum() {
                                    let cv = ConstValue::Indirect { alloc_id: prov.alloc_id(), offset: off };
                                    if let Some(d) = tcx.try_destructure_mir_constant_for_user_output(cv, inner) {
                                        if let Some(v) = d.variant {
                                            o.set("variant", J::Str(def.variant(v).name.to_string()));
                                        }
                                    }
                                }
                            }
                        }
                    }
                }
            }
        }
        ConstValue::ZeroSized => {
            o.set("zst", J::Bool(true));
        }
        ConstValue::Slice { alloc_id, meta } => {
            let inner = t.builtin_deref(true);
            let is_str = inner.map(|i| i.is_str()).unwrap_or(false);
            let is_u8 = inner
                .map(|i| matches!(i.kind(), ty::Slice(e) if *e == tcx.types.u8))
                .unwrap_or(false);
            if is_str || is_u8 {
                if let Some(b) = read_alloc_bytes(tcx, alloc_id, 0, meta as usize) {
                    if is_str {
                        o.set("str", J::Str(String::from_utf8_lossy(&b).to_string()));
                    } else {
                        o.set("bytes", bytes_to_json(&b));
                    }
                }
            } else {
                o.set("slice_len", J::Int(meta as i128));
            }
        }
        ConstValue::Indirect { alloc_id, offset } => {
            // arrays of u8 / small aggregates: dump raw bytes when the type is [u8; N]
            if let ty::Array(et, n) = t.kind() {
                if *et == tcx.types.u8 {
                    if let Some(n) = n.try_to_target_usize(tcx) {
                        if let Some(b) = read_alloc_bytes(tcx, alloc_id, offset.bytes() as usize, n as usize) {
                            o.set("bytes", bytes_to_json(&b));
                        }
                    }
                }
            }
            if !o.has("bytes") {
                o.set("indirect", J::Bool(true));
                o.set("alloc", dump_alloc(tcx, alloc_id, 2));
                if let ty::Adt(def, _) = t.kind() {
                    if def.is_enum() {
                        if let Some(d) = tcx.try_destructure_mir_constant_for_user_output(v, t) {
                            if let Some(vi) = d.variant {
                                o.set("variant", J::Str(def.variant(vi).name.to_string()));
                            }
                        }
                    }
                }
            }
        }
    }
    o
}

fn operand_json<'tcx>(tcx: TyCtxt<'tcx>, env: TypingEnv<'tcx>, body: &Body<'tcx>, op: &Operand<'tcx>) -> J {
    match op {
        Operand::Copy(p) => J::Arr(vec![J::s("copy"), place_json(tcx, body, p)]),
        Operand::Move(p) => J::Arr(vec![J::s("move"), place_json(tcx, body, p)]),
        Operand::Constant(c) => J::Arr(vec![J::s("const"), const_json(tcx, env, c)]),
        #[allow(unreachable_patterns)]
        _ => J::Arr(vec![J::s("other"), J::Str(format!("{:?}", op))]),
    }
}

fn rvalue_json<'tcx>(tcx: TyCtxt<'tcx>, env: TypingEnv<'tcx>, body: &Body<'tcx>, rv: &Rvalue<'tcx>) -> J {
    let opj = |o: &Operand<'tcx>| operand_json(tcx, env, body, o);
    match rv {
        Rvalue::Use(o, _) => J::Arr(vec![J::s("use"), opj(o)]),
        Rvalue::Repeat(o, n) => J::Arr(vec![J::s("repeat"), opj(o), J::Str(format!("{}", n))]),
        Rvalue::Ref(_, bk, p) => J::Arr(vec![
            J::s("ref"),
            place_json(tcx, body, p),
            J::Bool(matches!(bk, mir::BorrowKind::Mut { .. })),
        ]),
        Rvalue::RawPtr(_, p) => J::Arr(vec![J::s("rawptr"), place_json(tcx, body, p)]),
        Rvalue::Cast(k, o, t) => J::Arr(vec![
            J::s("cast"),
            J::Str(format!("{:?}", k)),
            opj(o),
            J::Str(format!("{}", t)),
        ]),
        Rvalue::BinaryOp(op, ab) => {
            J::Arr(vec![J::s("binop"), J::Str(format!("{:?}", op)), opj(&ab.0), opj(&ab.1)])
        }
        Rvalue::UnaryOp(op, o) => J::Arr(vec![J::s("unop"), J::Str(format!("{:?}", op)), opj(o)]),
        Rvalue::Discriminant(p) => J::Arr(vec![J::s("discr"), place_json(tcx, body, p)]),
        Rvalue::Aggregate(k, ops) => {
            let mut kind = J::obj();
            match &**k {
                AggregateKind::Array(t) => {
                    kind.set("k", J::s("array"));
                    kind.set("elem", J::Str(format!("{}", t)));
                }
                AggregateKind::Tuple => kind.set("k", J::s("tuple")),
                AggregateKind::Adt(did, vi, _args, _, active) => {
                    kind.set("k", J::s("adt"));
                    kind.set("adt", J::Str(tcx.def_path_str(*did)));
                    let adt = tcx.adt_def(*did);
                    let var = adt.variant(*vi);
                    kind.set("variant", J::Str(var.name.to_string()));
                    kind.set("vi", J::Int(vi.as_usize() as i128));
                    kind.set(
                        "fields",
                        J::Arr(var.fields.iter().map(|f| J::Str(f.name.to_string())).collect()),
                    );
                    if let Some(a) = active {
                        kind.set("active", J::Int(a.as_usize() as i128));
                    }
                }
                AggregateKind::Closure(did, _) => {
                    kind.set("k", J::s("closure"));
                    kind.set("closure", J::Str(tcx.def_path_str(*did)));
                }
                AggregateKind::Coroutine(did, _) | AggregateKind::CoroutineClosure(did, _) => {
                    kind.set("k", J::s("coroutine"));
                    kind.set("closure", J::Str(tcx.def_path_str(*did)));
                }
                AggregateKind::RawPtr(..) => kind.set("k", J::s("rawptr")),
            }
            J::Arr(vec![J::s("aggregate"), kind, J::Arr(ops.iter().map(|o| opj(o)).collect())])
        }
        Rvalue::CopyForDeref(p) => {
            J::Arr(vec![J::s("use"), J::Arr(vec![J::s("copy"), place_json(tcx, body, p)])])
        }
        other => J::Arr(vec![J::s("other"), J::Str(format!("{:?}", other))]),
    }
}

fn callee_json<'tcx>(
    tcx: TyCtxt<'tcx>,
    env: TypingEnv<'tcx>,
    body: &Body<'tcx>,
    func: &Operand<'tcx>,
    o: &mut J,
) {
    if let Some((did, args)) = func.const_fn_def() {
        o.set("callee", J::Str(tcx.def_path_str(did)));
        o.set("callee_full", J::Str(tcx.def_path_str_with_args(did, args)));
        o.set("local", J::Bool(did.is_local()));
        o.set(
            "targs",
            J::Arr(args.iter().map(|a| J::Str(format!("{}", a))).collect()),
        );
        // closures / fn items among the generic args (for linking)
        let mut clos = Vec::new();
        for a in args.iter() {
            if let Some(t) = a.as_type() {
                for inner in t.walk() {
                    if let Some(it) = inner.as_type() {
                        match it.kind() {
                            ty::Closure(d, _) => clos.push(J::Str(tcx.def_path_str(*d))),
                            ty::FnDef(d, _) => clos.push(J::Str(tcx.def_path_str(*d))),
                            _ => {}
                        }
                    }
                }
            }
        }
        if !clos.is_empty() {
            o.set("fn_targs", J::Arr(clos));
        }
        if let Some(tr) = tcx.trait_of_assoc(did) {
            o.set("trait", J::Str(tcx.def_path_str(tr)));
            if let Some(self_ty) = args.types().next() {
                o.set("self_ty", ty_json(tcx, self_ty));
            }
        }
        let args = tcx.erase_and_anonymize_regions(args);
        match ty::Instance::try_resolve(tcx, env, did, args) {
            Ok(Some(inst)) => {
                let rd = inst.def_id();
                let is_virtual = matches!(inst.def, ty::InstanceKind::Virtual(..));
                o.set("resolved", J::Str(tcx.def_path_str(rd)));
                o.set("resolved_full", J::Str(tcx.def_path_str_with_args(rd, inst.args)));
                o.set("resolved_local", J::Bool(rd.is_local()));
                o.set("kind", J::Str(format!("{:?}", inst.def).split('(').next().unwrap_or("").to_string()));
                if is_virtual {
                    o.set("virtual", J::Bool(true));
                }
                if tcx.trait_of_assoc(rd).is_some() && tcx.trait_of_assoc(did).is_some() && rd == did {
                    // resolved to the trait's default method body (provided method)
                    o.set("default_body", J::Bool(tcx.defaultness(rd).has_value()));
                }
            }
            Ok(None) => {
                o.set("unresolved", J::Bool(true));
            }
            Err(_) => {
                o.set("unresolved", J::Bool(true));
            }
        }
    } else {
        // indirect call through a local (fn pointer / closure value)
        o.set("indirect", operand_json(tcx, env, body, func));
        let t = func.ty(&body.local_decls, tcx);
        o.set("indirect_ty", ty_json(tcx, t));
    }
}

fn block_json<'tcx>(tcx: TyCtxt<'tcx>, env: TypingEnv<'tcx>, body: &Body<'tcx>, bb: &BasicBlockData<'tcx>) -> J {
    let mut o = J::obj();
    let mut stmts = Vec::new();
    for s in &bb.statements {
        match &s.kind {
            StatementKind::Assign(b) => {
                let (p, rv) = &**b;
                let mut v = vec![J::s("assign"), place_json(tcx, body, p), rvalue_json(tcx, env, body, rv)];
                if s.source_info.span.from_expansion() {
                    v.push(J::Arr(mac_chain(s.source_info.span).into_iter().map(J::Str).collect()));
                }
                stmts.push(J::Arr(v));
            }
            StatementKind::SetDiscriminant { place, variant_index } => {
                stmts.push(J::Arr(vec![
                    J::s("setdiscr"),
                    place_json(tcx, body, place),
                    J::Int(variant_index.as_usize() as i128),
                ]));
            }
            StatementKind::Intrinsic(i) => {
                stmts.push(J::Arr(vec![J::s("intrinsic"), J::Str(format!("{:?}", i))]));
            }
            _ => {}
        }
    }
    o.set("stmts", J::Arr(stmts));
    if bb.is_cleanup {
        o.set("cleanup", J::Bool(true));
    }
    let term = bb.terminator();
    let sp = term.source_info.span;
    let unwind_j = |u: &UnwindAction| match u {
        UnwindAction::Cleanup(b) => J::Int(b.as_usize() as i128),
        UnwindAction::Continue => J::s("continue"),
        UnwindAction::Unreachable => J::s("unreachable"),
        UnwindAction::Terminate(_) => J::s("terminate"),
    };
    let mut t = J::obj();
    t.set("span", J::Str(span_str(tcx, sp)));
    if sp.from_expansion() {
        t.set("mac", J::Arr(mac_chain(sp).into_iter().map(J::Str).collect()));
    }
    match &term.kind {
        TerminatorKind::Goto { target } => {
            t.set("k", J::s("goto"));
            t.set("target", J::Int(target.as_usize() as i128));
        }
        TerminatorKind::SwitchInt { discr, targets } => {
            t.set("k", J::s("switch"));
            t.set("discr", operand_json(tcx, env, body, discr));
            let dty = discr.ty(&body.local_decls, tcx);
            t.set("discr_ty", J::Str(format!("{}", dty)));
            let mut arms = Vec::new();
            for (v, b) in targets.iter() {
                arms.push(J::Arr(vec![J::Int(v as i128), J::Int(b.as_usize() as i128)]));
            }
            t.set("arms", J::Arr(arms));
            t.set("otherwise", J::Int(targets.otherwise().as_usize() as i128));
        }
        TerminatorKind::Call { func, args, destination, target, unwind, .. } => {
            t.set("k", J::s("call"));
            callee_json(tcx, env, body, func, &mut t);
            t.set(
                "args",
                J::Arr(args.iter().map(|a| operand_json(tcx, env, body, &a.node)).collect()),
            );
            t.set(
                "arg_tys",
                J::Arr(args.iter().map(|a| ty_json(tcx, a.node.ty(&body.local_decls, tcx))).collect()),
            );
            t.set("dest", place_json(tcx, body, destination));
            match target {
                Some(b) => t.set("target", J::Int(b.as_usize() as i128)),
                None => t.set("target", J::Null),
            }
            t.set("unwind", unwind_j(unwind));
        }
        TerminatorKind::TailCall { func, args, .. } => {
            t.set("k", J::s("call"));
            callee_json(tcx, env, body, func, &mut t);
            t.set(
                "args",
                J::Arr(args.iter().map(|a| operand_json(tcx, env, body, &a.node)).collect()),
            );
            t.set("target", J::Null);
            t.set("tail", J::Bool(true));
        }
        TerminatorKind::Assert { cond, expected, msg, target, unwind } => {
            t.set("k", J::s("assert"));
            t.set("cond", operand_json(tcx, env, body, cond));
            t.set("expected", J::Bool(*expected));
            let (kind, ops): (String, Vec<&Operand<'tcx>>) = match &**msg {
                mir::AssertKind::BoundsCheck { len, index } => ("BoundsCheck".into(), vec![len, index]),
                mir::AssertKind::Overflow(op, a, b) => (format!("Overflow({:?})", op), vec![a, b]),
                mir::AssertKind::OverflowNeg(a) => ("OverflowNeg".into(), vec![a]),
                mir::AssertKind::DivisionByZero(a) => ("DivisionByZero".into(), vec![a]),
                mir::AssertKind::RemainderByZero(a) => ("RemainderByZero".into(), vec![a]),
                other => (format!("{:?}", other).split('(').next().unwrap_or("").to_string(), vec![]),
            };
            t.set("assert", J::Str(kind));
            t.set("ops", J::Arr(ops.into_iter().map(|o| operand_json(tcx, env, body, o)).collect()));
            t.set("target", J::Int(target.as_usize() as i128));
            t.set("unwind", unwind_j(unwind));
        }
        TerminatorKind::Drop { place, target, unwind, .. } => {
            t.set("k", J::s("drop"));
            t.set("place", place_json(tcx, body, place));
            let pt = place.ty(&body.local_decls, tcx).ty;
            t.set("ty", ty_json(tcx, pt));
            t.set("target", J::Int(target.as_usize() as i128));
            t.set("unwind", unwind_j(unwind));
        }
        TerminatorKind::Return => t.set("k", J::s("return")),
        TerminatorKind::Unreachable => t.set("k", J::s("unreachable")),
        TerminatorKind::UnwindResume => t.set("k", J::s("resume")),
        TerminatorKind::UnwindTerminate(_) => t.set("k", J::s("terminate")),
        TerminatorKind::FalseEdge { real_target, .. } => {
            t.set("k", J::s("goto"));
            t.set("target", J::Int(real_target.as_usize() as i128));
        }
        TerminatorKind::FalseUnwind { real_target, .. } => {
            t.set("k", J::s("goto"));
            t.set("target", J::Int(real_target.as_usize() as i128));
        }
        other => {
            t.set("k", J::s("other"));
            t.set("text", J::Str(format!("{:?}", other)));
            let succ: Vec<J> = term.successors().map(|b| J::Int(b.as_usize() as i128)).collect();
            t.set("succ", J::Arr(succ));
        }
    }
    o.set("term", t);
    o
}

fn body_json<'tcx>(tcx: TyCtxt<'tcx>, did: DefId) -> J {
    let body = tcx.optimized_mir(did);
    let env = TypingEnv::post_analysis(tcx, did);
    let mut o = J::obj();
    o.set("id", J::Str(tcx.def_path_str(did)));
    let kind = tcx.def_kind(did);
    o.set("kind", J::Str(format!("{:?}", kind)));
    o.set("span", J::Str(span_str(tcx, body.span)));
    if body.span.from_expansion() {
        o.set("mac", J::Arr(mac_chain(body.span).into_iter().map(J::Str).collect()));
    }
    if matches!(kind, DefKind::Fn | DefKind::AssocFn) {
        o.set("pub", J::Bool(tcx.visibility(did).is_public()));
    }
    // enclosing impl
    let mut parent = tcx.opt_parent(did);
    let mut owner_fn: Option<DefId> = None;
    while let Some(p) = parent {
        match tcx.def_kind(p) {
            DefKind::Impl { .. } => {
                let mut im = J::obj();
                im.set("self", J::Str(format!("{}", tcx.type_of(p).instantiate_identity().skip_norm_wip())));
                if let ty::Adt(d, _) = tcx.type_of(p).instantiate_identity().skip_norm_wip().kind() {
                    im.set("self_adt", J::Str(tcx.def_path_str(d.did())));
                }
                if let Some(tr) = tcx.impl_opt_trait_ref(p) {
                    let tr = tr.instantiate_identity().skip_norm_wip();
                    im.set("trait", J::Str(tcx.def_path_str(tr.def_id)));
                    im.set("trait_full", J::Str(format!("{}", tr)));
                }
                im.set("id", J::Str(tcx.def_path_str(p)));
                o.set("impl", im);
                break;
            }
            DefKind::Trait => {
                o.set("in_trait", J::Str(tcx.def_path_str(p)));
                break;
            }
            DefKind::Fn | DefKind::AssocFn | DefKind::Closure => {
                if owner_fn.is_none() && !matches!(tcx.def_kind(p), DefKind::Closure) {
                    owner_fn = Some(p);
                }
                if matches!(tcx.def_kind(did), DefKind::Closure) && !o.has("parent") {
                    o.set("parent", J::Str(tcx.def_path_str(p)));
                }
            }
            DefKind::Mod => break,
            _ => {}
        }
        parent = tcx.opt_parent(p);
    }
    if let Some(f) = owner_fn {
        o.set("owner_fn", J::Str(tcx.def_path_str(f)));
    }
    // cfg(test) detection: any ancestor module named `tests` / `test` carrying #[cfg(test)] is not
    // compiled in a non-test build, so nothing to do here.
    o.set("argc", J::Int(body.arg_count as i128));
    let generics = tcx.generics_of(did);
    let mut gs = Vec::new();
    for i in 0..generics.count() {
        let p = generics.param_at(i, tcx);
        gs.push(J::Str(p.name.to_string()));
    }
    o.set("generics", J::Arr(gs));
    o.set(
        "locals",
        J::Arr(body.local_decls.iter().map(|d| ty_json(tcx, d.ty)).collect()),
    );
    let mut vars = Vec::new();
    for v in &body.var_debug_info {
        if let mir::VarDebugInfoContents::Place(p) = &v.value {
            vars.push(J::Arr(vec![J::Str(v.name.to_string()), place_json(tcx, body, p)]));
        }
    }
    o.set("vars", J::Arr(vars));
    o.set(
        "blocks",
        J::Arr(body.basic_blocks.iter().map(|bb| block_json(tcx, env, body, bb)).collect()),
    );
    o
}

fn export<'tcx>(tcx: TyCtxt<'tcx>, name: &str) -> String {
    let mut doc = J::obj();
    doc.set("crate", J::Str(name.to_string()));
    doc.set("rustc", J::Str(option_env!("CFG_VERSION").unwrap_or("nightly").to_string()));
    let mut feats: Vec<String> = Vec::new();
    for (k, v) in tcx.sess.config.iter() {
        if k.as_str() == "feature" {
            if let Some(v) = v {
                feats.push(v.to_string());
            }
        }
    }
    feats.sort();
    doc.set("features", J::Arr(feats.into_iter().map(J::Str).collect()));
    doc.set("test", J::Bool(tcx.sess.opts.test));

    // ADTs
    let mut adts = Vec::new();
    let mut impls = Vec::new();
    let mut fns_no_body = Vec::new();
    let mut traits = Vec::new();
    for ld in tcx.hir_crate_items(()).definitions() {
        let did = ld.to_def_id();
        match tcx.def_kind(did) {
            DefKind::Struct | DefKind::Enum | DefKind::Union => {
                let adt = tcx.adt_def(did);
                let mut a = J::obj();
                a.set("path", J::Str(tcx.def_path_str(did)));
                a.set("kind", J::Str(format!("{:?}", tcx.def_kind(did))));
                a.set("span", J::Str(span_str(tcx, tcx.def_span(did))));
                let mut vars = Vec::new();
                for (vi, v) in adt.variants().iter_enumerated() {
                    let mut vj = J::obj();
                    vj.set("name", J::Str(v.name.to_string()));
                    vj.set("vi", J::Int(vi.as_usize() as i128));
                    if adt.is_enum() {
                        let d = adt.discriminant_for_variant(tcx, vi);
                        vj.set("discr", J::Int(d.val as i128));
                    }
                    let mut fs = Vec::new();
                    for f in v.fields.iter() {
                        let ft = tcx.type_of(f.did).instantiate_identity().skip_norm_wip();
                        let mut fj = ty_json(tcx, ft);
                        fj.set("name", J::Str(f.name.to_string()));
                        fj.set("pub", J::Bool(f.vis.is_public()));
                        fs.push(fj);
                    }
                    vj.set("fields", J::Arr(fs));
                    vars.push(vj);
                }
                a.set("variants", J::Arr(vars));
                adts.push(a);
            }
            DefKind::Impl { .. } => {
                let mut im = J::obj();
                im.set("id", J::Str(tcx.def_path_str(did)));
                let st = tcx.type_of(did).instantiate_identity().skip_norm_wip();
                im.set("self", ty_json(tcx, st));
                if let Some(tr) = tcx.impl_opt_trait_ref(did) {
                    let tr = tr.instantiate_identity().skip_norm_wip();
                    im.set("trait", J::Str(tcx.def_path_str(tr.def_id)));
                    im.set("trait_full", J::Str(format!("{}", tr)));
                }
                let sp = tcx.def_span(did);
                im.set("span", J::Str(span_str(tcx, sp)));
                if sp.from_expansion() {
                    im.set("mac", J::Arr(mac_chain(sp).into_iter().map(J::Str).collect()));
                }
                let mut items = Vec::new();
                for it in tcx.associated_items(did).in_definition_order() {
                    items.push(J::Arr(vec![
                        J::Str(it.name().to_string()),
                        J::Str(tcx.def_path_str(it.def_id)),
                    ]));
                }
                im.set("items", J::Arr(items));
                impls.push(im);
            }
            DefKind::Trait => {
                let mut tj = J::obj();
                tj.set("path", J::Str(tcx.def_path_str(did)));
                let mut sup = Vec::new();
                for (clause, _) in tcx.explicit_super_predicates_of(did).iter_identity_copied().map(|x| x.skip_norm_wip()) {
                    sup.push(J::Str(format!("{}", clause)));
                }
                tj.set("super", J::Arr(sup));
                let mut items = Vec::new();
                for it in tcx.associated_items(did).in_definition_order() {
                    items.push(J::Arr(vec![
                        J::Str(it.name().to_string()),
                        J::Bool(it.defaultness(tcx).has_value()),
                    ]));
                }
                tj.set("items", J::Arr(items));
                traits.push(tj);
            }
            DefKind::Fn | DefKind::AssocFn => {
                if !tcx.is_mir_available(did) {
                    fns_no_body.push(J::Str(tcx.def_path_str(did)));
                }
            }
            _ => {}
        }
    }
    doc.set("adts", J::Arr(adts));
    doc.set("impls", J::Arr(impls));
    doc.set("fns_no_body", J::Arr(fns_no_body));
    doc.set("traits", J::Arr(traits));

    let mut bodies = Vec::new();
    let (mut nb, mut nblocks, mut nstmts) = (0usize, 0usize, 0usize);
    for ld in tcx.mir_keys(()) {
        let did = ld.to_def_id();
        match tcx.def_kind(did) {
            DefKind::Fn | DefKind::AssocFn | DefKind::Closure => {}
            _ => continue,
        }
        if !tcx.is_mir_available(did) {
            continue;
        }
        // coroutine closures etc. are not present in this crate; skip constructors
        let b = tcx.optimized_mir(did);
        nb += 1;
        nblocks += b.basic_blocks.len();
        nstmts += b.basic_blocks.iter().map(|x| x.statements.len()).sum::<usize>();
        bodies.push(body_json(tcx, did));
    }
    let mut stats = J::obj();
    stats.set("bodies", J::Int(nb as i128));
    stats.set("blocks", J::Int(nblocks as i128));
    stats.set("stmts", J::Int(nstmts as i128));
    doc.set("stats", stats);
    doc.set("bodies", J::Arr(bodies));
    let mut s = String::new();
    doc.write(&mut s);
    let _ = write!(s, "\n");
    s
}
