// Minimal JSON value + writer (no dependencies).
use std::fmt::Write;

pub enum J {
    Null,
    Bool(bool),
    Int(i128),
    Str(String),
    Arr(Vec<J>),
    Obj(Vec<(String, J)>),
}

impl J {
    pub fn obj() -> J {
        J::Obj(Vec::new())
    }
    pub fn s(x: &str) -> J {
        J::Str(x.to_string())
    }
    pub fn set(&mut self, k: &str, v: J) {
        if let J::Obj(o) = self {
            o.push((k.to_string(), v));
        }
    }
    pub fn has(&self, k: &str) -> bool {
        if let J::Obj(o) = self {
            o.iter().any(|(kk, _)| kk == k)
        } else {
            false
        }
    }
    pub fn write(&self, out: &mut String) {
        match self {
            J::Null => out.push_str("null"),
            J::Bool(b) => out.push_str(if *b { "true" } else { "false" }),
            J::Int(i) => {
                // JSON numbers beyond 2^63 are kept exact by Python's json module
                let _ = write!(out, "{}", i);
            }
            J::Str(s) => write_str(s, out),
            J::Arr(v) => {
                out.push('[');
                for (i, x) in v.iter().enumerate() {
                    if i > 0 {
                        out.push(',');
                    }
                    x.write(out);
                }
                out.push(']');
            }
            J::Obj(v) => {
                out.push('{');
                for (i, (k, x)) in v.iter().enumerate() {
                    if i > 0 {
                        out.push(',');
                    }
                    write_str(k, out);
                    out.push(':');
                    x.write(out);
                }
                out.push('}');
            }
        }
    }
}

fn write_str(s: &str, out: &mut String) {
    out.push('"');
    for c in s.chars() {
        match c {
            '"' => out.push_str("\\\""),
            '\\' => out.push_str("\\\\"),
            '\n' => out.push_str("\\n"),
            '\r' => out.push_str("\\r"),
            '\t' => out.push_str("\\t"),
            c if (c as u32) < 0x20 || ((c as u32) >= 0x7f && (c as u32) <= 0xffff) => {
                let _ = write!(out, "\\u{:04x}", c as u32);
            }
            c if (c as u32) > 0xffff => {
                let mut buf = [0u16; 2];
                for u in c.encode_utf16(&mut buf) {
                    let _ = write!(out, "\\u{:04x}", u);
                }
            }
            c => out.push(c),
        }
    }
    out.push('"');
}
