// astx — syntax-tree extractor (syn) for the /verif rule library.
//
// Usage: astx <file.rs>...  → JSON on stdout: for every function (free, impl method, nested) a
// simplified tree of its body: blocks, match arms (pattern / guard / body), if / loops, macro
// invocations (name, raw tokens, leading string literal = format string), calls and method
// calls with their argument token strings.  Used only where lowering hides the structure
// (format literals, slice patterns and guards of the content-stream serializer).
use quote::ToTokens;
use serde_json::{json, Value};
use syn::spanned::Spanned;

fn ts<T: ToTokens>(t: &T) -> String {
    t.to_token_stream().to_string()
}

fn line<T: Spanned>(t: &T) -> usize {
    t.span().start().line
}

fn col<T: Spanned>(t: &T) -> usize {
    t.span().start().column + 1
}

fn lit_of_tokens(tokens: &proc_macro2::TokenStream) -> (Option<String>, Vec<String>, Option<String>) {
    // split macro tokens at top-level commas; find first string literal argument
    let mut args: Vec<String> = Vec::new();
    let mut cur = proc_macro2::TokenStream::new();
    for tt in tokens.clone() {
        if let proc_macro2::TokenTree::Punct(p) = &tt {
            if p.as_char() == ',' {
                args.push(cur.to_string());
                cur = proc_macro2::TokenStream::new();
                continue;
            }
        }
        cur.extend(std::iter::once(tt));
    }
    if !cur.is_empty() {
        args.push(cur.to_string());
    }
    let mut fmt = None;
    let mut fmt_idx = None;
    for (i, a) in args.iter().enumerate() {
        if let Ok(l) = syn::parse_str::<syn::LitStr>(a) {
            fmt = Some(l.value());
            fmt_idx = Some(i);
            break;
        }
        if let Ok(l) = syn::parse_str::<syn::LitByteStr>(a) {
            fmt = Some(l.value().iter().map(|&b| b as char).collect());
            fmt_idx = Some(i);
            break;
        }
        if i >= 1 {
            break;
        }
    }
    let dest = match fmt_idx {
        Some(1) => Some(args[0].clone()),
        _ => None,
    };
    let rest = match fmt_idx {
        Some(i) => args[i + 1..].to_vec(),
        None => args.clone(),
    };
    (fmt, rest, dest)
}

fn expr(e: &syn::Expr) -> Value {
    use syn::Expr::*;
    match e {
        Block(b) => block(&b.block),
        Unsafe(b) => block(&b.block),
        Match(m) => {
            let arms: Vec<Value> = m
                .arms
                .iter()
                .map(|a| {
                    json!({
                        "pat": ts(&a.pat),
                        "guard": a.guard.as_ref().map(|g| ts(&g.1)),
                        "body": expr(&a.body),
                        "line": line(a),
                    })
                })
                .collect();
            json!({"k": "match", "on": ts(&m.expr), "on_tree": expr(&m.expr), "arms": arms, "line": line(m)})
        }
        If(i) => json!({
            "k": "if", "cond": ts(&i.cond), "cond_tree": expr(&i.cond), "then": block(&i.then_branch),
            "else": i.else_branch.as_ref().map(|e| expr(&e.1)), "line": line(i)
        }),
        ForLoop(f) => json!({"k": "for", "pat": ts(&f.pat), "iter": ts(&f.expr), "iter_tree": expr(&f.expr), "body": block(&f.body), "line": line(f)}),
        While(w) => json!({"k": "while", "cond": ts(&w.cond), "cond_tree": expr(&w.cond), "body": block(&w.body), "line": line(w)}),
        Loop(l) => json!({"k": "loop", "body": block(&l.body), "line": line(l)}),
        Macro(m) => mac(&m.mac, line(m), col(m)),
        Call(c) => json!({
            "k": "call", "func": ts(&c.func), "args": c.args.iter().map(|a| ts(a)).collect::<Vec<_>>(),
            "arg_trees": c.args.iter().map(expr).collect::<Vec<_>>(), "line": line(c), "col": col(c)
        }),
        MethodCall(c) => json!({
            "k": "mcall", "recv": ts(&c.receiver), "recv_tree": expr(&c.receiver), "method": c.method.to_string(),
            "args": c.args.iter().map(|a| ts(a)).collect::<Vec<_>>(),
            "arg_trees": c.args.iter().map(expr).collect::<Vec<_>>(), "line": line(c), "col": col(c)
        }),
        Try(t) => json!({"k": "try", "e": expr(&t.expr), "line": line(t)}),
        Return(r) => json!({"k": "return", "e": r.expr.as_ref().map(|e| expr(e)), "line": line(r)}),
        Break(b) => json!({"k": "break", "e": b.expr.as_ref().map(|e| expr(e)), "line": line(b)}),
        Continue(c) => json!({"k": "continue", "line": line(c)}),
        Closure(c) => json!({"k": "closure", "body": expr(&c.body), "text": ts(c), "line": line(c)}),
        Assign(a) => json!({"k": "assign", "left": ts(&a.left), "right": expr(&a.right), "right_text": ts(&a.right), "line": line(a)}),
        Binary(b) => json!({"k": "binary", "op": ts(&b.op), "l": expr(&b.left), "r": expr(&b.right), "text": ts(b), "line": line(b)}),
        Unary(u) => json!({"k": "unary", "op": ts(&u.op), "e": expr(&u.expr), "text": ts(u)}),
        Paren(p) => expr(&p.expr),
        Reference(r) => json!({"k": "ref", "e": expr(&r.expr), "text": ts(r)}),
        Let(l) => json!({"k": "letcond", "pat": ts(&l.pat), "e": expr(&l.expr), "text": ts(l)}),
        Tuple(t) => json!({"k": "tuple", "elems": t.elems.iter().map(expr).collect::<Vec<_>>(), "text": ts(t)}),
        Array(t) => json!({"k": "array", "elems": t.elems.iter().map(expr).collect::<Vec<_>>(), "text": ts(t)}),
        Struct(s) => json!({
            "k": "struct", "path": ts(&s.path),
            "fields": s.fields.iter().map(|f| json!({"name": ts(&f.member), "e": expr(&f.expr)})).collect::<Vec<_>>(),
            "text": ts(s), "line": line(s)
        }),
        Field(f) => json!({"k": "field", "base": expr(&f.base), "member": ts(&f.member), "text": ts(f)}),
        Index(i) => json!({"k": "index", "e": expr(&i.expr), "index": expr(&i.index), "text": ts(i)}),
        Range(r) => json!({"k": "range", "text": ts(r)}),
        Lit(l) => json!({"k": "lit", "text": ts(l)}),
        Path(p) => json!({"k": "path", "text": ts(p)}),
        Cast(c) => json!({"k": "cast", "e": expr(&c.expr), "ty": ts(&c.ty), "text": ts(c)}),
        other => json!({"k": "other", "text": ts(other), "line": line(other)}),
    }
}

fn mac(m: &syn::Macro, ln: usize, cl: usize) -> Value {
    let name = ts(&m.path).replace(' ', "");
    let (fmt, args, dest) = lit_of_tokens(&m.tokens);
    // try to parse the arguments of well-known expression macros so that nested structure is kept
    let mut arg_trees: Vec<Value> = Vec::new();
    if let Ok(parsed) = m.parse_body_with(syn::punctuated::Punctuated::<syn::Expr, syn::Token![,]>::parse_terminated) {
        arg_trees = parsed.iter().map(expr).collect();
    }
    json!({"k": "macro", "name": name, "fmt": fmt, "args": args, "dest": dest, "tokens": m.tokens.to_string(), "arg_trees": arg_trees, "line": ln, "col": cl})
}

fn stmt(s: &syn::Stmt) -> Value {
    match s {
        syn::Stmt::Local(l) => json!({
            "k": "let", "pat": ts(&l.pat),
            "init": l.init.as_ref().map(|i| expr(&i.expr)),
            "init_text": l.init.as_ref().map(|i| ts(&i.expr)),
            "else": l.init.as_ref().and_then(|i| i.diverge.as_ref().map(|d| expr(&d.1))),
            "line": line(l)
        }),
        syn::Stmt::Item(i) => json!({"k": "item", "text": ts(i).chars().take(80).collect::<String>()}),
        syn::Stmt::Expr(e, semi) => {
            let mut v = expr(e);
            if semi.is_some() {
                if let Value::Object(ref mut o) = v {
                    o.insert("semi".into(), Value::Bool(true));
                }
            }
            v
        }
        syn::Stmt::Macro(m) => mac(&m.mac, line(m), col(m)),
    }
}

fn block(b: &syn::Block) -> Value {
    json!({"k": "block", "stmts": b.stmts.iter().map(stmt).collect::<Vec<_>>()})
}

struct Collect {
    file: String,
    ctx: Vec<String>,
    out: Vec<Value>,
    consts: Vec<Value>,
}

impl Collect {
    fn func(&mut self, name: String, sig: &syn::Signature, body: &syn::Block, ln: usize, attrs: &[syn::Attribute]) {
        let cfg_test = attrs.iter().any(|a| ts(a).contains("cfg (test)") || ts(a).replace(' ', "").contains("cfg(test)"));
        let qual = if self.ctx.is_empty() { name.clone() } else { format!("{}::{}", self.ctx.join("::"), name) };
        self.out.push(json!({
            "file": self.file, "name": name, "qual": qual, "line": ln, "cfg_test": cfg_test,
            "params": sig.inputs.iter().map(|a| ts(a)).collect::<Vec<_>>(),
            "ret": ts(&sig.output),
            "body": block(body),
        }));
        // nested items
        self.ctx.push(name);
        for s in &body.stmts {
            if let syn::Stmt::Item(it) = s {
                self.item(it);
            }
        }
        self.ctx.pop();
    }

    fn item(&mut self, it: &syn::Item) {
        match it {
            syn::Item::Fn(f) => self.func(f.sig.ident.to_string(), &f.sig, &f.block, line(f), &f.attrs),
            syn::Item::Impl(im) => {
                let mut label = ts(&im.self_ty).replace(' ', "");
                if let Some((_, tr, _)) = &im.trait_ {
                    label = format!("<{} as {}>", label, ts(tr).replace(' ', ""));
                }
                self.ctx.push(label);
                for ii in &im.items {
                    if let syn::ImplItem::Fn(f) = ii {
                        self.func(f.sig.ident.to_string(), &f.sig, &f.block, line(f), &f.attrs);
                    }
                }
                self.ctx.pop();
            }
            syn::Item::Trait(t) => {
                self.ctx.push(format!("trait {}", t.ident));
                for ti in &t.items {
                    if let syn::TraitItem::Fn(f) = ti {
                        if let Some(b) = &f.default {
                            self.func(f.sig.ident.to_string(), &f.sig, b, line(f), &f.attrs);
                        }
                    }
                }
                self.ctx.pop();
            }
            syn::Item::Mod(m) => {
                let is_test = m.attrs.iter().any(|a| ts(a).replace(' ', "").contains("cfg(test)"));
                if let Some((_, items)) = &m.content {
                    if is_test {
                        return;
                    }
                    self.ctx.push(m.ident.to_string());
                    for i in items {
                        self.item(i);
                    }
                    self.ctx.pop();
                }
            }
            syn::Item::Const(c) => {
                self.consts.push(json!({"file": self.file, "name": c.ident.to_string(), "ty": ts(&c.ty), "value": ts(&c.expr), "line": line(c)}));
            }
            syn::Item::Static(c) => {
                self.consts.push(json!({"file": self.file, "name": c.ident.to_string(), "ty": ts(&c.ty), "value": ts(&c.expr), "line": line(c)}));
            }
            _ => {}
        }
    }
}

fn main() {
    let mut all_fns = Vec::new();
    let mut all_consts = Vec::new();
    let mut errors = Vec::new();
    for path in std::env::args().skip(1) {
        let src = match std::fs::read_to_string(&path) {
            Ok(s) => s,
            Err(e) => {
                errors.push(format!("{}: {}", path, e));
                continue;
            }
        };
        match syn::parse_file(&src) {
            Ok(file) => {
                let mut c = Collect { file: path.clone(), ctx: Vec::new(), out: Vec::new(), consts: Vec::new() };
                for it in &file.items {
                    c.item(it);
                }
                all_fns.extend(c.out);
                all_consts.extend(c.consts);
            }
            Err(e) => errors.push(format!("{}: parse error: {}", path, e)),
        }
    }
    let doc = json!({"fns": all_fns, "consts": all_consts, "errors": errors});
    println!("{}", doc);
}
