//! Triage harness (NOT part of any registered check): reproduces the genuine defects recorded in
//! /verif/known_findings.json against the real crate.  `cargo run --offline -- <name>`; each
//! witness prints what it observed and `REPRODUCED` / `NOT-REPRODUCED`.
use pdf::enc::*;

fn w_lzw_predictor() -> bool {
    // two rows of 4 bytes, PNG predictor 12 (Up filter on every row), LZW with EarlyChange 0
    let raw: Vec<u8> = vec![2, 1, 2, 3, 4, 2, 1, 1, 1, 1];
    let want: Vec<u8> = vec![1, 2, 3, 4, 2, 3, 4, 5];
    let mut comp = vec![];
    weezl::encode::Encoder::new(weezl::BitOrder::Msb, 9).into_stream(&mut comp).encode_all(&raw[..]).status.unwrap();
    let params = LZWFlateParams { predictor: 12, n_components: 1, bits_per_component: 8, columns: 4, early_change: 0 };
    let lzw = decode(&comp, &StreamFilter::LZWDecode(params.clone())).unwrap();
    let mut z = libflate::zlib::Encoder::new(Vec::new()).unwrap();
    std::io::Write::write_all(&mut z, &raw).unwrap();
    let zdata = z.finish().into_result().unwrap();
    let fl = decode(&zdata, &StreamFilter::FlateDecode(params)).unwrap();
    println!("flate+pred12 -> {:?}; lzw+pred12 -> {:?}; expected {:?}", fl, lzw, want);
    fl == want && lzw != want
}

fn w_bits_per_component() -> bool {
    // one row, 2 columns of 16-bit samples, Sub filter: bytes-per-pixel is 2, not 1
    let raw: Vec<u8> = vec![1, 0x01, 0x02, 0x01, 0x01];
    let want: Vec<u8> = vec![0x01, 0x02, 0x02, 0x03];
    let mut z = libflate::zlib::Encoder::new(Vec::new()).unwrap();
    std::io::Write::write_all(&mut z, &raw).unwrap();
    let zdata = z.finish().into_result().unwrap();
    let params = LZWFlateParams { predictor: 15, n_components: 1, bits_per_component: 16, columns: 2, early_change: 1 };
    let got = decode(&zdata, &StreamFilter::FlateDecode(params));
    println!("16-bit Sub row -> {:?}; expected {:?}", got, want);
    got.map(|g| g != want).unwrap_or(true)
}

fn w_tiff_predictor() -> bool {
    // TIFF predictor 2: each sample is the difference to its left neighbour
    let raw: Vec<u8> = vec![1, 1, 1, 1];
    let want: Vec<u8> = vec![1, 2, 3, 4];
    let mut z = libflate::zlib::Encoder::new(Vec::new()).unwrap();
    std::io::Write::write_all(&mut z, &raw).unwrap();
    let zdata = z.finish().into_result().unwrap();
    let params = LZWFlateParams { predictor: 2, n_components: 1, bits_per_component: 8, columns: 4, early_change: 1 };
    let got = decode(&zdata, &StreamFilter::FlateDecode(params)).unwrap();
    println!("TIFF predictor row -> {:?}; expected {:?}", got, want);
    got != want
}

fn w_hex_odd() -> bool {
    let got = decode(b"41 4>", &StreamFilter::ASCIIHexDecode).unwrap();
    println!("ASCIIHex '41 4>' -> {:?}; expected [0x41, 0x40]", got);
    got != vec![0x41, 0x40]
}

fn w_a85_ws() -> bool {
    let enc = b"BOu!r\x0cD]j7B\x00Ebo80~>";
    let got = decode(enc, &StreamFilter::ASCII85Decode);
    println!("ASCII85 with FF/NUL white-space -> {:?}; expected Ok(\"hello world!\")", got.as_ref().map(|v| String::from_utf8_lossy(v).to_string()));
    got.map(|g| g != b"hello world!").unwrap_or(true)
}

/// minimal classic-xref PDF from (object number, body) pairs
pub fn mkpdf(objs: &[(u64, &str)], trailer_extra: &str) -> Vec<u8> {
    let mut out = b"%PDF-1.5\n".to_vec();
    let max = objs.iter().map(|o| o.0).max().unwrap_or(0);
    let mut offs = vec![None; max as usize + 1];
    for (n, body) in objs {
        offs[*n as usize] = Some(out.len());
        out.extend_from_slice(format!("{} 0 obj\n{}\nendobj\n", n, body).as_bytes());
    }
    let xref = out.len();
    out.extend_from_slice(format!("xref\n0 {}\n", max + 1).as_bytes());
    for (i, o) in offs.iter().enumerate() {
        match o {
            Some(p) => out.extend_from_slice(format!("{:010} {:05} n \n", p, 0).as_bytes()),
            None => out.extend_from_slice(format!("{:010} {:05} f \n", 0, if i == 0 { 65535 } else { 0 }).as_bytes()),
        }
    }
    out.extend_from_slice(format!("trailer\n<< /Size {} /Root 1 0 R {} >>\nstartxref\n{}\n%%EOF", max + 1, trailer_extra, xref).as_bytes());
    out
}
const CATALOG: &str = "<< /Type /Catalog /Pages 2 0 R >>";
const PAGES: &str = "<< /Type /Pages /Kids [3 0 R] /Count 1 >>";
const PAGE: &str = "<< /Type /Page /Parent 2 0 R /MediaBox [0 0 100 100] >>";

fn w_cache_image() -> bool {
    use pdf::file::FileOptions;
    use pdf::object::*;
    let run = |cached: bool| -> (usize, usize) {
        let path = "/repo/files/jpeg.pdf";
        macro_rules! go { ($file:expr) => {{
            let file = $file;
            let r = file.resolver();
            let mut res = (0, 0);
            for n in 1..40u64 {
                if let Ok(img) = r.get::<XObject>(Ref::from_id(n)) {
                    if let XObject::Image(ref im) = *img {
                        let a = im.raw_image_data(&r).map(|d| d.0.len()).unwrap_or(0);
                        let b = im.inner.data(&r).map(|d| d.len()).unwrap_or(0);
                        res = (a, b);
                        break;
                    }
                }
            }
            res
        }}}
        if cached { go!(FileOptions::cached().open(path).unwrap()) } else { go!(FileOptions::uncached().open(path).unwrap()) }
    };
    let c = run(true);
    let u = run(false);
    println!("raw_image_data then Stream::data: cached {:?}, uncached {:?}", c, u);
    c != u
}

fn w_cache_err_type() -> bool {
    use pdf::file::FileOptions;
    use pdf::object::*;
    use pdf::primitive::Primitive;
    let data = mkpdf(&[(1, CATALOG), (2, PAGES), (3, PAGE), (4, "132")], "");
    let run = |cached: bool| -> String {
        macro_rules! go { ($file:expr) => {{
            let file = $file;
            let r = file.resolver();
            let a = r.get::<pdf::font::Font>(Ref::from_id(4)).is_ok();
            let b = r.get::<Primitive>(Ref::from_id(4));
            format!("as Font ok={}, then as Primitive -> {:?}", a, b.map(|p| format!("{:?}", *p)).map_err(|e| format!("{}", e).chars().take(60).collect::<String>()))
        }}}
        if cached { go!(FileOptions::cached().load(data.clone()).unwrap()) } else { go!(FileOptions::uncached().load(data.clone()).unwrap()) }
    };
    let c = run(true);
    let u = run(false);
    println!("cached:   {}\nuncached: {}", c, u);
    c != u
}

fn w_update_stale() -> bool {
    use pdf::file::FileOptions;
    use pdf::object::*;
    let data = mkpdf(&[(1, CATALOG), (2, PAGES), (3, PAGE), (4, "132")], "");
    let mut file = FileOptions::cached().load(data).unwrap();
    let before = *file.resolver().get::<i32>(Ref::from_id(4)).unwrap();
    file.update(PlainRef { id: 4, gen: 0 }, 777i32).unwrap();
    let typed = *file.resolver().get::<i32>(Ref::from_id(4)).unwrap();
    let raw = file.resolver().resolve(PlainRef { id: 4, gen: 0 }).unwrap();
    println!("before={} after update: get::<i32> = {}, resolve = {:?}", before, typed, raw);
    typed != 777
}

// ---- C13: schedules driven through the public Cache trait ------------------------------------
mod sched {
    use pdf::file::Cache;
    use pdf::object::PlainRef;
    use std::sync::{Arc, Condvar, Mutex};

    /// A cache that computes every time (like NoCache) but lets the test decide when each
    /// computation may start: `gate(key)` blocks until `open(key)` was called, and announces
    /// that the caller is inside the cache (after the resolver pushed its guard entry).
    #[derive(Clone, Default)]
    pub struct Gate(pub Arc<(Mutex<(Vec<u64>, Vec<u64>)>, Condvar)>); // (inside, opened)
    impl Gate {
        pub fn wait_inside(&self, id: u64) {
            let (m, c) = &*self.0;
            let mut g = m.lock().unwrap();
            while !g.0.contains(&id) { g = c.wait(g).unwrap(); }
        }
        pub fn open(&self, id: u64) {
            let (m, c) = &*self.0;
            m.lock().unwrap().1.push(id);
            c.notify_all();
        }
    }
    impl<T: Clone> Cache<T> for Gate {
        fn get_or_compute(&self, key: PlainRef, compute: impl FnOnce() -> T) -> T {
            let (m, c) = &*self.0;
            {
                let mut g = m.lock().unwrap();
                g.0.push(key.id);
                c.notify_all();
                while !g.1.contains(&key.id) { g = c.wait(g).unwrap(); }
            }
            compute()
        }
        fn clear(&self) {}
    }
}

fn w_conc_spurious_recursive() -> bool {
    use pdf::file::{FileOptions, NoCache};
    use pdf::object::*;
    let data = mkpdf(&[(1, CATALOG), (2, PAGES), (3, PAGE), (4, "132")], "");
    let gate = sched::Gate::default();
    gate.open(1); gate.open(2); gate.open(3); // loading the catalog / page tree is not gated
    let file = FileOptions::uncached().cache(gate.clone(), NoCache).load(data).unwrap();
    let r = file.resolver();
    let (a, b) = std::thread::scope(|s| {
        let t1 = s.spawn(|| r.get::<i32>(Ref::from_id(4)).map(|v| *v).map_err(|e| e.to_string()));
        gate.wait_inside(4);                 // T1 pushed (4 0 R) on the guard stack and sits in the cache
        let t2 = s.spawn(|| r.get::<i32>(Ref::from_id(4)).map(|v| *v).map_err(|e| e.to_string()));
        let b = loop { if t2.is_finished() { break t2.join().unwrap(); } std::thread::yield_now(); if false { break Ok(0); } };
        gate.open(4);
        (t1.join().unwrap(), b)
    });
    println!("T1 -> {:?}; overlapping T2 -> {:?} (sequentially both return Ok(132))", a, b);
    a == Ok(132) && b != Ok(132)
}

fn w_conc_assert_poison() -> bool {
    use pdf::file::{FileOptions, NoCache};
    use pdf::object::*;
    let data = mkpdf(&[(1, CATALOG), (2, PAGES), (3, PAGE), (4, "132"), (5, "7")], "");
    let gate = sched::Gate::default();
    gate.open(1); gate.open(2); gate.open(3);
    let file = FileOptions::uncached().cache(gate.clone(), NoCache).load(data).unwrap();
    let r = file.resolver();
    let res = std::thread::scope(|s| {
        let t1 = s.spawn(|| std::panic::catch_unwind(std::panic::AssertUnwindSafe(|| r.get::<i32>(Ref::from_id(4)).map(|v| *v).map_err(|e| e.to_string()))));
        gate.wait_inside(4);
        let t2 = s.spawn(|| std::panic::catch_unwind(std::panic::AssertUnwindSafe(|| r.get::<i32>(Ref::from_id(5)).map(|v| *v).map_err(|e| e.to_string()))));
        gate.wait_inside(5);                 // guard stack is now [4, 5]
        gate.open(4);                        // T1 finishes first and pops ... 5
        let a = t1.join().unwrap();
        gate.open(5);
        let b = t2.join().unwrap();
        (a.is_err(), b.is_err())
    });
    let after = std::panic::catch_unwind(std::panic::AssertUnwindSafe(|| r.get::<i32>(Ref::from_id(5)).is_ok()));
    println!("T1 panicked: {}, T2 panicked: {}, later load on the same resolver: {:?}", res.0, res.1, after.map_err(|_| "panic (poisoned lock)"));
    res.0 || res.1
}

fn w_conc_deadlock() -> bool {
    use pdf::file::{FileOptions, Log};
    use pdf::object::*;
    use std::sync::{Arc, Mutex, Condvar};
    // two page-tree nodes naming each other as /Parent (a reference cycle through an eagerly loaded field)
    let data = mkpdf(&[(1, CATALOG), (2, PAGES), (3, PAGE),
        (10, "<< /Type /Pages /Parent 11 0 R /Kids [] /Count 0 >>"),
        (11, "<< /Type /Pages /Parent 10 0 R /Kids [] /Count 0 >>")], "");
    #[derive(Clone, Default)]
    struct Rendezvous(Arc<(Mutex<Vec<u64>>, Condvar)>);
    impl Log for Rendezvous {
        fn load_object(&self, r: PlainRef) {
            // called from inside the compute closure: wait until both threads are computing their first object
            if r.id == 10 || r.id == 11 {
                let (m, c) = &*self.0;
                let mut g = m.lock().unwrap();
                if !g.contains(&r.id) { g.push(r.id); }
                c.notify_all();
                let deadline = std::time::Instant::now() + std::time::Duration::from_secs(2);
                while g.len() < 2 && std::time::Instant::now() < deadline {
                    g = c.wait_timeout(g, std::time::Duration::from_millis(100)).unwrap().0;
                }
            }
        }
    }
    let file = Arc::new(FileOptions::cached().log(Rendezvous::default()).load(data).unwrap());
    let done = Arc::new(Mutex::new(0));
    for id in [10u64, 11] {
        let file = file.clone();
        let done = done.clone();
        std::thread::spawn(move || {
            let r = file.resolver();           // one resolver per thread
            let res = r.get::<PagesNode>(Ref::from_id(id)).map(|_| ()).map_err(|e| e.to_string().chars().take(50).collect::<String>());
            println!("thread loading {} 0 R returned {:?}", id, res);
            *done.lock().unwrap() += 1;
        });
    }
    std::thread::sleep(std::time::Duration::from_secs(4));
    let n = *done.lock().unwrap();
    println!("after 4 s: {} of 2 threads returned (sequentially each load returns an error at once)", n);
    n < 2
}

fn w_save_prefix() -> bool {
    use pdf::file::FileOptions;
    use pdf::object::*;
    let mut data = vec![b'x'; 300];
    data.extend_from_slice(&mkpdf(&[(1, CATALOG), (2, PAGES), (3, PAGE), (4, "132")], ""));
    // mkpdf wrote offsets relative to its own start, i.e. relative to the header: a valid prefixed file
    let mut file = FileOptions::uncached().load(data).unwrap();
    file.update(PlainRef { id: 4, gen: 0 }, 777i32).unwrap();
    let saved = {
        let path = std::env::temp_dir().join("verif_w_save_prefix.pdf");
        file.save_to(&path).unwrap();
        let d = std::fs::read(&path).unwrap();
        let _ = std::fs::remove_file(&path);
        d
    };
    let re = FileOptions::uncached().load(saved);
    let r = re.as_ref().map(|f| f.resolver().resolve(PlainRef { id: 4, gen: 0 }).map(|p| format!("{:?}", p)).map_err(|e| e.to_string()))
        .map_err(|e| e.to_string().chars().take(70).collect::<String>());
    println!("reload of a saved 300-byte-prefixed file: {:?} (expected Ok(Ok(\"Integer(777)\")))", r);
    !matches!(r, Ok(Ok(ref s)) if s == "Integer(777)")
}

/// PDF with an xref stream; `compressed` = (object number, body) stored in object stream number `stm`
pub fn mkpdf_objstm(objs: &[(u64, &str)], stm: u64, compressed: &[(u64, &str)], xref_nr: u64) -> Vec<u8> {
    let mut out = b"%PDF-1.5\n".to_vec();
    let max = xref_nr;
    let mut entries: Vec<(u8, u64, u64)> = vec![(0, 0, 65535); max as usize + 1];
    for (n, body) in objs {
        entries[*n as usize] = (1, out.len() as u64, 0);
        out.extend_from_slice(format!("{} 0 obj\n{}\nendobj\n", n, body).as_bytes());
    }
    // object stream
    let mut head = String::new();
    let mut bodytxt = String::new();
    for (i, (n, b)) in compressed.iter().enumerate() {
        head.push_str(&format!("{} {} ", n, bodytxt.len()));
        bodytxt.push_str(b);
        if i + 1 < compressed.len() { bodytxt.push(' '); }
        entries[*n as usize] = (2, stm, i as u64);
    }
    let data = format!("{}{}", head, bodytxt);
    entries[stm as usize] = (1, out.len() as u64, 0);
    out.extend_from_slice(format!("{} 0 obj\n<< /Type /ObjStm /N {} /First {} /Length {} >>\nstream\n{}\nendstream\nendobj\n",
        stm, compressed.len(), head.len(), data.len(), data).as_bytes());
    let xpos = out.len() as u64;
    entries[xref_nr as usize] = (1, xpos, 0);
    let mut xdata = Vec::new();
    for (t, a, b) in &entries {
        xdata.push(*t);
        xdata.extend_from_slice(&(*a as u32).to_be_bytes());
        xdata.extend_from_slice(&(*b as u16).to_be_bytes());
    }
    out.extend_from_slice(format!("{} 0 obj\n<< /Type /XRef /Size {} /W [1 4 2] /Root 1 0 R /Length {} >>\nstream\n", xref_nr, max + 1, xdata.len()).as_bytes());
    out.extend_from_slice(&xdata);
    out.extend_from_slice(format!("\nendstream\nendobj\nstartxref\n{}\n%%EOF", xpos).as_bytes());
    out
}

fn w_update_compressed() -> bool {
    use pdf::file::FileOptions;
    use pdf::object::*;
    let data = mkpdf_objstm(&[(1, CATALOG), (2, PAGES), (3, PAGE)], 5, &[(4, "132")], 6);
    let mut file = FileOptions::uncached().load(data).unwrap();
    let before = file.resolver().resolve(PlainRef { id: 4, gen: 0 }).map(|p| format!("{:?}", p));
    let r = file.update(PlainRef { id: 4, gen: 0 }, 777i32).unwrap();
    let returned = r.get_ref().get_inner();
    let path = std::env::temp_dir().join("verif_w_update_compressed.pdf");
    file.save_to(&path).unwrap();
    let saved = std::fs::read(&path).unwrap();
    let _ = std::fs::remove_file(&path);
    let re = FileOptions::uncached().load(saved).unwrap();
    let after = re.resolver().resolve(PlainRef { id: 4, gen: 0 }).map(|p| format!("{:?}", p)).map_err(|e| e.to_string());
    println!("4 0 R before: {:?}; update(4 0 R, 777) returned {:?}; after save+reload 4 0 R = {:?}", before, returned, after);
    returned != (PlainRef { id: 4, gen: 0 }) || after != Ok("Integer(777)".to_string())
}

fn w_failed_save_retry() -> bool {
    use pdf::file::FileOptions;
    use pdf::object::*;
    let data = mkpdf(&[(1, CATALOG), (2, PAGES), (3, PAGE), (4, "132"),
        (5, "<< /Length 3 >>\nstream\nabc\nendstream")], "");
    let mut file = FileOptions::uncached().load(data).unwrap();
    // an object that cannot be written: a stream whose data still lives in the source file
    let in_file_stream = file.resolver().resolve(PlainRef { id: 5, gen: 0 }).unwrap();
    file.update(PlainRef { id: 4, gen: 0 }, in_file_stream).unwrap();
    let path = std::env::temp_dir().join("verif_w_failed_save.pdf");
    let first = file.save_to(&path).map_err(|e| e.to_string().chars().take(60).collect::<String>());
    file.update(PlainRef { id: 4, gen: 0 }, 5i32).unwrap();          // replace the offending object
    let second = file.save_to(&path).map_err(|e| e.to_string().chars().take(60).collect::<String>());
    let _ = std::fs::remove_file(&path);
    println!("save with an unwritable object: {:?}; retry after replacing it: {:?}", first, second);
    first.is_err() && second.is_err()
}

fn roundtrip(p: &pdf::primitive::Primitive) -> Result<pdf::primitive::Primitive, String> {
    use pdf::parser::{parse, ParseFlags};
    let mut buf = Vec::new();
    p.serialize(&mut buf).map_err(|e| e.to_string())?;
    parse(&buf, &pdf::object::NoResolve, ParseFlags::ANY).map_err(|e| format!("{} <- {:?}", e.to_string().chars().take(40).collect::<String>(), String::from_utf8_lossy(&buf)))
}

fn w_name_escape() -> bool {
    use pdf::primitive::Primitive;
    let mut bad = false;
    for n in ["a b", "a#b", "a/b", "a(b", "x%y", "é"] {
        let p = Primitive::Name(n.into());
        let r = std::panic::catch_unwind(|| roundtrip(&p));
        let ok = matches!(r, Ok(Ok(ref q)) if *q == p);
        println!("name {:?} -> {:?}", n, r.map_err(|_| "panic"));
        bad |= !ok;
    }
    // dictionary key
    let mut d = pdf::primitive::Dictionary::new();
    d.insert("a b", Primitive::Integer(1));
    let p = Primitive::Dictionary(d);
    let r = roundtrip(&p);
    println!("dict key \"a b\" -> {:?}", r);
    bad |= r != Ok(p);
    bad
}

fn w_string_eol() -> bool {
    use pdf::primitive::{Primitive, PdfString};
    use pdf::parser::{parse, ParseFlags};
    let raw_cr = parse(b"(a\rb)", &pdf::object::NoResolve, ParseFlags::ANY).map(|p| format!("{:?}", p));
    let unknown = parse(b"(a\\qb)", &pdf::object::NoResolve, ParseFlags::ANY).map(|p| format!("{:?}", p));
    let hexnul = parse(b"<41\x0042>", &pdf::object::NoResolve, ParseFlags::ANY).map(|p| format!("{:?}", p)).map_err(|e| e.to_string());
    println!("(a<CR>b) -> {:?} (spec: a<LF>b); (a\\qb) -> {:?} (spec: aqb); <41 NUL 42> -> {:?} (spec: AB)", raw_cr, unknown, hexnul);
    let p = Primitive::String(PdfString::new(b"a\rb"[..].into()));
    let rt = roundtrip(&p);
    println!("string with CR round trip -> {:?}", rt);
    let v = |r: &Result<String, _>, want: &str| r.as_ref().map(|s: &String| !s.contains(want)).unwrap_or(true);
    v(&raw_cr.map_err(|e| e.to_string()), "a\\x0ab") || v(&unknown.map_err(|e| e.to_string()), "\"aqb\"") || hexnul.map(|s| !s.contains("\"AB\"")).unwrap_or(true) || rt != Ok(p)
}

fn w_current_point_after_close() -> bool {
    use pdf::content::{parse_ops, Op};
    let ops = parse_ops(b"0 0 m 10 0 l 10 10 l h 20 20 30 30 v\n5 6 7 8 re 1 1 2 2 v", &pdf::object::NoResolve).unwrap();
    let curves: Vec<_> = ops.iter().filter_map(|o| if let Op::CurveTo { c1, .. } = o { Some((c1.x, c1.y)) } else { None }).collect();
    println!("first control points of the two `v` curves: {:?} (specification: after `h` the current point is the subpath start (0,0); after `re` it is (5,6))", curves);
    curves != vec![(0.0, 0.0), (5.0, 6.0)]
}

fn w_length_in_objstm() -> bool {
    use pdf::file::FileOptions;
    use pdf::object::*;
    // stream 7 has /Length 4 0 R, and 4 0 obj lives in object stream 5
    let data = mkpdf_objstm(&[(1, CATALOG), (2, PAGES), (3, PAGE), (7, "<< /Length 4 0 R >>\nstream\nabc\nendstream")], 5, &[(4, "3")], 8);
    let file = FileOptions::uncached().load(data).unwrap();
    let r = file.resolver();
    let s = r.resolve(PlainRef { id: 7, gen: 0 }).map(|p| format!("{:?}", p).chars().take(40).collect::<String>()).map_err(|e| e.to_string().chars().take(90).collect::<String>());
    println!("stream whose /Length is stored in an object stream -> {:?}", s);
    s.is_err()
}

fn w_action_goto() -> bool {
    use pdf::object::*;
    use pdf::primitive::Primitive;
    let p = pdf::parser::parse(b"<< /S /GoTo /D [3 0 R /Fit] >>", &NoResolve, pdf::parser::ParseFlags::ANY).unwrap();
    let a = Action::from_primitive(p, &NoResolve).unwrap();
    let written = a.to_primitive(&mut NoUpdate).unwrap();
    let back = Action::from_primitive(written.clone(), &NoResolve).map(|_| ()).map_err(|e| e.to_string().chars().take(40).collect::<String>());
    println!("GoTo action written as {} ; read back: {:?}", written, back);
    back.is_err()
}

fn w_font_other() -> bool {
    use pdf::object::*;
    let p = pdf::parser::parse(b"<< /Type /Font /Subtype /Type1 /BaseFont /Helvetica /Name /F1 /MyKey 7 >>", &NoResolve, pdf::parser::ParseFlags::ANY).unwrap();
    let f = pdf::font::Font::from_primitive(p, &NoResolve).unwrap();
    let w = f.to_primitive(&mut NoUpdate).unwrap();
    let d = w.into_dictionary().unwrap();
    let keys: Vec<String> = d.iter().map(|(k, _)| k.to_string()).collect();
    println!("font dictionary written back with keys {:?} (input had Type Subtype BaseFont Name MyKey)", keys);
    d.get("MyKey").is_none() || d.get("Name").is_none()
}

fn import_first_page(data: Vec<u8>) -> Result<Vec<u8>, String> {
    use pdf::file::FileOptions;
    use pdf::build::*;
    use pdf::object::*;
    let src = FileOptions::uncached().load(data).map_err(|e| e.to_string())?;
    let page = src.get_page(0).map_err(|e| e.to_string())?;
    let mut builder = PdfBuilder::new(FileOptions::uncached());
    let pb = {
        let mut importer = Importer::new(src.resolver(), &mut builder.storage);
        PageBuilder::clone_page(&page, &mut importer).map_err(|e| e.to_string())?
    };
    builder.build(CatalogBuilder::from_pages(vec![pb])).map_err(|e| e.to_string())
}

/// run with `-- import_cycle`: the process dies with a stack overflow (SIGABRT/SIGSEGV) when the defect is present
fn w_import_cycle() -> bool {
    // the page's /Foo entry points at a dictionary that points back at itself
    let page = "<< /Type /Page /Parent 2 0 R /MediaBox [0 0 10 10] /Resources << >> /Foo 5 0 R >>";
    let data = mkpdf(&[(1, CATALOG), (2, PAGES), (3, page), (5, "<< /Back 5 0 R >>")], "");
    let r = import_first_page(data);
    println!("import of a page with a self-referencing dictionary -> {:?}", r.as_ref().map(|b| b.len()));
    r.is_err()
}

fn w_import_rcref_unwrap() -> bool {
    // X1's /Group dictionary mentions object 8 as a plain reference; X2 uses object 8 as its (typed) /Resources
    let page = "<< /Type /Page /Parent 2 0 R /MediaBox [0 0 10 10] /Resources << /XObject << /X1 6 0 R /X2 7 0 R >> >> /Contents 4 0 R >>";
    let x1 = "<< /Type /XObject /Subtype /Form /BBox [0 0 1 1] /Group << /S /Transparency /Foo 8 0 R >> /Length 0 >>\nstream\n\nendstream";
    let x2 = "<< /Type /XObject /Subtype /Form /BBox [0 0 1 1] /Resources 8 0 R /Length 0 >>\nstream\n\nendstream";
    let content = "<< /Length 14 >>\nstream\n/X1 Do /X2 Do\n\nendstream";
    let data = mkpdf(&[(1, CATALOG), (2, PAGES), (3, page), (4, content), (6, x1), (7, x2), (8, "<< >>")], "");
    let r = std::panic::catch_unwind(|| import_first_page(data));
    println!("import of a page whose XObjects share object 8 as plain and as typed reference -> {:?}", r.as_ref().map(|x| x.as_ref().map(|b| b.len())).map_err(|_| "panic"));
    r.is_err()
}

fn w_import_colorspace() -> bool {
    use pdf::file::FileOptions;
    let page = "<< /Type /Page /Parent 2 0 R /MediaBox [0 0 10 10] /Resources << /ColorSpace << /CS1 [/ICCBased 6 0 R] >> /Properties << /P1 7 0 R >> >> /Contents 4 0 R >>";
    let content = "<< /Length 36 >>\nstream\n/CS1 cs 0 0 0 sc /Tag /P1 BDC EMC\n\n\nendstream";
    let icc = "<< /N 3 /Length 0 >>\nstream\n\nendstream";
    let data = mkpdf(&[(1, CATALOG), (2, PAGES), (3, page), (4, content), (6, icc), (7, "<< /K 1 >>")], "");
    let out = match import_first_page(data) { Ok(o) => o, Err(e) => { println!("import failed: {}", e); return true; } };
    let f = FileOptions::uncached().load(out).unwrap();
    let p = f.get_page(0).unwrap();
    let res = p.resources().unwrap();
    println!("imported page resources: color spaces {:?}, properties {:?} (the content uses /CS1 and /P1)", res.color_spaces.keys().collect::<Vec<_>>(), res.properties.keys().collect::<Vec<_>>());
    res.color_spaces.is_empty() || res.properties.is_empty()
}

fn w_import_shading() -> bool {
    use pdf::file::FileOptions;
    let page = "<< /Type /Page /Parent 2 0 R /MediaBox [0 0 10 10] /Resources << /Shading << /Sh1 6 0 R >> >> /Contents 4 0 R >>";
    let content = "<< /Length 8 >>\nstream\n/Sh1 sh\n\nendstream";
    let sh = "<< /ShadingType 2 /ColorSpace /DeviceRGB /Coords [0 0 1 1] /Function << /FunctionType 2 /Domain [0 1] /N 1 >> >>";
    let data = mkpdf(&[(1, CATALOG), (2, PAGES), (3, page), (4, content), (6, sh)], "");
    let out = match import_first_page(data) { Ok(o) => o, Err(e) => { println!("import failed: {}", e); return false; } };
    let text = String::from_utf8_lossy(&out);
    let f = FileOptions::uncached().load(out.clone()).unwrap();
    let ops = f.get_page(0).unwrap().contents.as_ref().unwrap().operations(&f.resolver()).unwrap();
    println!("imported page: operators {:?}; output mentions /Shading: {}, /ShadingType: {}", ops.len(), text.contains("/Shading"), text.contains("ShadingType"));
    !text.contains("ShadingType")
}

// ---- hostile graphs / numbers (C01, C14): each of these ends the process (stack overflow) or panics when the defect is present

fn load(objs: &[(u64, &str)]) -> pdf::file::File<Vec<u8>, pdf::file::NoCache, pdf::file::NoCache, pdf::file::NoLog> {
    let mut v = vec![(1, CATALOG), (2, PAGES), (3, PAGE)];
    v.extend_from_slice(objs);
    pdf::file::FileOptions::uncached().load(mkpdf(&v, "")).unwrap()
}
fn short<T>(r: Result<T, pdf::error::PdfError>) -> Result<T, String> {
    r.map_err(|e| e.to_string().chars().take(70).collect::<String>())
}

fn w_ref_chain() -> bool {
    use pdf::object::*;
    let file = load(&[(5, "5 0 R")]);
    let r = file.resolver();
    let d = pdf::primitive::Dictionary::from_primitive(pdf::primitive::Primitive::Reference(PlainRef { id: 5, gen: 0 }), &r);
    println!("dictionary read through `5 0 obj 5 0 R endobj` -> {:?}", short(d.map(|_| ())));
    false
}
fn w_nametree_cycle() -> bool {
    use pdf::object::*;
    let file = load(&[(5, "<< /Kids [5 0 R] >>")]);
    let r = file.resolver();
    let t = NameTree::<pdf::primitive::Primitive>::from_primitive(pdf::primitive::Primitive::Reference(PlainRef { id: 5, gen: 0 }), &r);
    let t = match t { Ok(t) => t, Err(e) => { println!("load failed: {}", e); return false; } };
    let mut n = 0;
    let w = t.walk(&r, &mut |_, _| n += 1);
    println!("walk of a name tree whose /Kids contains itself -> {:?}", short(w));
    false
}
fn w_devicen_cycle() -> bool {
    use pdf::object::*;
    let file = load(&[(5, "[/DeviceN [/A] 5 0 R 6 0 R]")]);
    let r = file.resolver();
    let c = ColorSpace::from_primitive(pdf::primitive::Primitive::Reference(PlainRef { id: 5, gen: 0 }), &r);
    println!("DeviceN colour space whose alternate is itself -> {:?}", short(c.map(|_| ())));
    false
}
fn w_appearance_cycle() -> bool {
    use pdf::object::*;
    let file = load(&[(5, "<< /A 5 0 R >>")]);
    let r = file.resolver();
    let c = AppearanceStreamEntry::from_primitive(pdf::primitive::Primitive::Reference(PlainRef { id: 5, gen: 0 }), &r);
    println!("appearance dictionary that contains itself -> {:?}", short(c.map(|_| ())));
    false
}
fn w_function_domain() -> bool {
    use pdf::object::*;
    let p = pdf::parser::parse(b"<< /FunctionType 2 /Domain [] /N 1 /C0 [0] /C1 [1] >>", &NoResolve, pdf::parser::ParseFlags::ANY).unwrap();
    let f = Function::from_primitive(p, &NoResolve);
    println!("exponential function with an empty /Domain -> {:?}", short(f.map(|_| ())));
    false
}
fn w_function_dims() -> bool {
    use pdf::object::*;
    let p = pdf::parser::parse(b"<< /FunctionType 2 /Domain [0 1] /N 1 /C0 [0 0] /C1 [1 1] >>", &NoResolve, pdf::parser::ParseFlags::ANY).unwrap();
    let f = Function::from_primitive(p, &NoResolve).unwrap();
    println!("dimensions of an exponential function: {} -> {}", f.input_dim(), f.output_dim());
    false
}
fn w_flate_geometry() -> bool {
    let mut z = libflate::zlib::Encoder::new(Vec::new()).unwrap();
    std::io::Write::write_all(&mut z, b"\x00abcdefgh").unwrap();
    let zdata = z.finish().into_result().unwrap();
    let params = LZWFlateParams { predictor: 12, n_components: 3, bits_per_component: 8, columns: -1, early_change: 1 };
    let got = decode(&zdata, &StreamFilter::FlateDecode(params));
    println!("/Predictor 12 /Colors 3 /Columns -1 -> {:?}", short(got.map(|v| v.len())));
    false
}
fn w_fax_zero_columns() -> bool {
    let params = CCITTFaxDecodeParams { k: -1, end_of_line: false, encoded_byte_align: false, columns: 0, rows: 0, end_of_block: true, black_is_1: false, damaged_rows_before_error: 0 };
    let got = fax_decode(&[0u8, 1, 2, 3], &params);
    println!("CCITT G4 with /Columns 0 -> {:?}", short(got.map(|v| v.len())));
    false
}
fn w_fax_capacity() -> bool {
    let params = CCITTFaxDecodeParams { k: -1, end_of_line: false, encoded_byte_align: false, columns: 4000000000, rows: 4000000000, end_of_block: true, black_is_1: false, damaged_rows_before_error: 0 };
    let got = fax_decode(&[0u8, 1, 2, 3], &params);
    println!("CCITT G4 with /Columns 4000000000 /Rows 4000000000 -> {:?}", short(got.map(|v| v.len())));
    false
}
fn font_from(src: &[u8]) -> pdf::font::Font {
    use pdf::object::*;
    let p = pdf::parser::parse(src, &NoResolve, pdf::parser::ParseFlags::ANY).unwrap();
    pdf::font::Font::from_primitive(p, &NoResolve).unwrap()
}
const CIDFONT: &str = "/Type /Font /Subtype /CIDFontType2 /BaseFont /X /CIDSystemInfo << /Registry (Adobe) /Ordering (Identity) /Supplement 0 >> /FontDescriptor << /Type /FontDescriptor /FontName /X /Flags 4 /FontBBox [0 0 1 1] /ItalicAngle 0 /Ascent 1 /Descent 0 /CapHeight 1 /StemV 1 >>";
fn w_widths_empty_group() -> bool {
    let f = font_from(format!("<< {} /W [0 []] >>", CIDFONT).as_bytes());
    let w = f.widths(&pdf::object::NoResolve);
    println!("/W [0 []] -> {:?}", short(w.map(|w| w.map(|w| w.get(0)))));
    false
}
fn w_widths_huge_cid() -> bool {
    // before the fix this asks for 8 GB (`/W [0 [1] 2000000000 [1]]`) or loops for hours (`/W [0 2000000000 1]`)
    let f = font_from(format!("<< {} /W [0 [1] 2000000000 [1]] >>", CIDFONT).as_bytes());
    let w = f.widths(&pdf::object::NoResolve);
    println!("/W [0 [1] 2000000000 [1]] -> {:?}", short(w.map(|w| w.map(|w| w.get(0)))));
    false
}
fn w_descendant_empty() -> bool {
    let f = font_from(b"<< /Type /Font /Subtype /Type0 /BaseFont /X /Encoding /Identity-H /DescendantFonts [] >>");
    let w = f.widths(&pdf::object::NoResolve);
    println!("Type0 font with /DescendantFonts [] -> widths {:?}", short(w.map(|w| w.is_some())));
    false
}
fn w_encoding_diff() -> bool {
    use pdf::object::*;
    let p = pdf::parser::parse(b"<< /Differences [-1 /a /b] >>", &NoResolve, pdf::parser::ParseFlags::ANY).unwrap();
    let e = pdf::encoding::Encoding::from_primitive(p, &NoResolve);
    println!("/Differences [-1 /a /b] -> {:?}", short(e.map(|e| e.differences.len())));
    false
}
fn w_page_count_overflow() -> bool {
    let kids = "<< /Type /Pages /Parent 2 0 R /Count 2147483647 /Kids [] >>";
    let pages = "<< /Type /Pages /Count 3 /Kids [5 0 R 6 0 R 7 0 R 3 0 R] >>";
    let data = mkpdf(&[(1, CATALOG), (2, pages), (3, PAGE), (5, kids), (6, kids), (7, kids)], "");
    let file = pdf::file::FileOptions::uncached().load(data).unwrap();
    let p = file.get_root().pages.page(&file.resolver(), u32::MAX);
    println!("page tree whose /Count entries add up to more than 2^32 -> {:?}", short(p.map(|_| ())));
    false
}
fn w_objstm_offset_overflow() -> bool {
    use pdf::object::*;
    // object stream 5 declares object 4 at offset 2^64-1
    let body = "4 18446744073709551615 3";
    let stm = format!("<< /Type /ObjStm /N 1 /First 23 /Length {} >>\nstream\n{}\nendstream", body.len(), body);
    let file = load(&[(5, stm.as_str())]);
    let r = file.resolver();
    let os = match r.get::<pdf::object::ObjectStream>(Ref::from_id(5)) { Ok(o) => o, Err(e) => { println!("load failed: {}", e); return false; } };
    let s = os.get_object_slice(0, &r);
    println!("object stream with offset 2^64-1 and /First 23 -> {:?}", short(s.map(|(_, r)| r)));
    false
}
fn w_xref_offset_overflow() -> bool {
    use pdf::object::*;
    let mut data = mkpdf(&[(1, CATALOG), (2, PAGES), (3, PAGE), (5, "null")], "");
    let pos5 = data.windows(7).position(|w| w == b"5 0 obj").unwrap();
    let entry = format!("{:010} {:05} n", pos5, 0);
    let at = data.windows(entry.len()).position(|w| w == entry.as_bytes()).unwrap();
    data.splice(at .. at + entry.len(), b"18446744073709551615 00000 n".iter().cloned());
    let mut junk = b"junk\n".to_vec();
    junk.extend_from_slice(&data);
    let file = pdf::file::FileOptions::uncached().load(junk).unwrap();
    let r = file.resolver().resolve(PlainRef { id: 5, gen: 0 });
    println!("xref entry with offset 2^64-1 in a file with 5 bytes before the header -> {:?}", short(r.map(|_| ())));
    false
}
/// known finding (C14): the process dies with a stack overflow
fn w_jbig2_globals_cycle() -> bool {
    use pdf::object::*;
    let file = load(&[(5, "<< /Length 0 /Filter /JBIG2Decode /DecodeParms << /JBIG2Globals 5 0 R >> >>\nstream\n\nendstream")]);
    let r = file.resolver();
    let s = Stream::<()>::from_primitive(pdf::primitive::Primitive::Reference(PlainRef { id: 5, gen: 0 }), &r);
    println!("JBIG2 stream whose /JBIG2Globals is the stream itself -> {:?}", short(s.map(|_| ())));
    false
}
/// known finding (C14): the process dies with a stack overflow
fn w_descendant_fonts_cycle() -> bool {
    use pdf::object::*;
    let font = "<< /Type /Font /Subtype /Type0 /BaseFont /X /Encoding /Identity-H /DescendantFonts 7 0 R >>";
    let arr = format!("[ {} ]", font);
    let file = load(&[(7, arr.as_str())]);
    let r = file.resolver();
    let p = pdf::parser::parse(font.as_bytes(), &NoResolve, pdf::parser::ParseFlags::ANY).unwrap();
    let f = pdf::font::Font::from_primitive(p, &r);
    println!("Type0 font whose /DescendantFonts array (an indirect object) contains the font dictionary itself -> {:?}", short(f.map(|_| ())));
    false
}
fn w_ps_roll() -> bool {
    let f = pdf::object::PsFunc::parse("{ 5 1 roll }").unwrap();
    let mut out = [0.0f32; 0];
    let r = f.exec(&[], &mut out);
    println!("PostScript calculator `5 1 roll` on an empty stack -> {:?}", short(r));
    let f = pdf::object::PsFunc::parse("{ 2 7 roll }").unwrap();
    let mut out = [0.0f32; 2];
    let r = f.exec(&[1.0, 2.0], &mut out);
    println!("`1 2 2 7 roll` -> {:?} {:?}", short(r), out);
    false
}
fn w_ps_parse() -> bool {
    let r = pdf::object::PsFunc::parse("} add {");
    println!("PostScript function text `}} add {{` -> {:?}", short(r.map(|_| ())));
    false
}
fn w_sampled_short() -> bool {
    use pdf::object::*;
    let file = load(&[(5, "<< /FunctionType 0 /Domain [0 1] /Range [0 1] /Size [1000] /BitsPerSample 8 /Length 1 >>\nstream\nA\nendstream")]);
    let r = file.resolver();
    let f = match Function::from_primitive(pdf::primitive::Primitive::Reference(PlainRef { id: 5, gen: 0 }), &r) { Ok(f) => f, Err(e) => { println!("load failed: {}", e); return false; } };
    let mut out = [0.0f32; 1];
    let res = f.apply(&[0.9], &mut out);
    println!("sampled function declaring 1000 samples with 1 byte of data, applied at 0.9 -> {:?}", short(res));
    false
}
/// a sampled function with /Size [0] and no /Encode: the default encode array is built from `n - 1`
fn w_sampled_size_zero() -> bool {
    use pdf::object::*;
    let file = load(&[(5, "<< /FunctionType 0 /Domain [0 1] /Range [0 1] /Size [0] /BitsPerSample 8 /Length 2 >>\nstream\nAB\nendstream")]);
    let r = file.resolver();
    let res = std::panic::catch_unwind(std::panic::AssertUnwindSafe(|| {
        Function::from_primitive(pdf::primitive::Primitive::Reference(PlainRef { id: 5, gen: 0 }), &r).map(|_| ())
    }));
    println!("sampled function with /Size [0] and no /Encode, loaded -> {}", match &res { Ok(r) => format!("{:?}", r.as_ref().map_err(|e| e.to_string())), Err(_) => "PANIC".to_string() });
    res.is_err()
}
/// a literal string made of N line continuations (backslash + LF): the string scanner re-enters itself once per continuation
fn w_string_continuations() -> bool {
    let n: usize = std::env::var("DEPTH").ok().and_then(|s| s.parse().ok()).unwrap_or(400000);
    let mut data = Vec::with_capacity(2 * n + 8);
    data.push(b'(');
    for _ in 0..n { data.extend_from_slice(b"\\\n"); }
    data.extend_from_slice(b"x)");
    let r = pdf::parser::parse(&data, &pdf::object::NoResolve, pdf::parser::ParseFlags::ANY);
    println!("literal string with {} line continuations -> {:?}", n, r.map(|p| p.get_debug_name()).map_err(|e| e.to_string()));
    false       // reproduced = the process dies of a stack overflow before this line
}
/// a sampled function whose /Domain is reversed (or NaN-free but min > max): f32::clamp panics
fn w_sampled_domain() -> bool {
    use pdf::object::*;
    let file = load(&[(5, "<< /FunctionType 0 /Domain [1 0] /Range [0 1] /Size [2] /BitsPerSample 8 /Length 2 >>\nstream\nAB\nendstream")]);
    let r = file.resolver();
    let f = match Function::from_primitive(pdf::primitive::Primitive::Reference(PlainRef { id: 5, gen: 0 }), &r) { Ok(f) => f, Err(e) => { println!("load failed (fine): {}", e); return false; } };
    let res = std::panic::catch_unwind(std::panic::AssertUnwindSafe(|| {
        let mut out = [0.0f32; 1];
        f.apply(&[0.5], &mut out).map(|_| out[0])
    }));
    println!("sampled function with /Domain [1 0] applied at 0.5 -> {}", match &res { Ok(r) => format!("{:?}", r.as_ref().map(|_| ()).map_err(|e| e.to_string())), Err(_) => "PANIC".to_string() });
    res.is_err()
}
/// known finding (C15): colour spaces with a tint function cannot be written back
fn w_colorspace_function_write() -> bool {
    use pdf::object::*;
    let mut bad = false;
    for src in ["[/Separation /Spot /DeviceRGB << /FunctionType 2 /Domain [0 1] /N 1 /C0 [0 0 0] /C1 [1 1 1] >>]", "[/DeviceN [/A /B] /DeviceRGB << /FunctionType 2 /Domain [0 1] /N 1 /C0 [0 0 0] /C1 [1 1 1] >>]"] {
        let p = pdf::parser::parse(src.as_bytes(), &NoResolve, pdf::parser::ParseFlags::ANY).unwrap();
        let cs = ColorSpace::from_primitive(p, &NoResolve).unwrap();
        let w = cs.to_primitive(&mut NoUpdate);
        println!("{} -> written: {:?}", src, short(w.as_ref().map(|p| p.to_string()).map_err(|e| pdf::error::PdfError::Other { msg: e.to_string() })));
        bad |= w.is_err();
    }
    bad
}
/// a chain of N distinct page-tree nodes, each the /Parent of the next: loading the innermost node loads all ancestors recursively
fn w_deep_parent_chain() -> bool {
    use pdf::object::*;
    let n: u64 = std::env::var("DEPTH").ok().and_then(|s| s.parse().ok()).unwrap_or(20000);
    let mut objs: Vec<(u64, String)> = vec![(1, "<< /Type /Catalog /Pages 2 0 R >>".into())];
    // node k (object k+2) has parent k+1; node 0 is the root
    objs.push((2, format!("<< /Type /Pages /Count 1 /Kids [3 0 R] >>")));
    for k in 1..n {
        objs.push((k + 2, format!("<< /Type /Pages /Parent {} 0 R /Count 1 /Kids [{} 0 R] >>", k + 1, k + 3)));
    }
    objs.push((n + 2, format!("<< /Type /Page /Parent {} 0 R /MediaBox [0 0 10 10] >>", n + 1)));
    let refs: Vec<(u64, &str)> = objs.iter().map(|(i, s)| (*i, s.as_str())).collect();
    let file = pdf::file::FileOptions::uncached().load(mkpdf(&refs, "")).unwrap();
    let r = file.resolver();
    let leaf = r.get::<PagesNode>(Ref::from_id(n + 2));
    println!("page whose chain of /Parent nodes is {} deep -> {:?}", n, short(leaf.map(|_| ())));
    false
}
/// a chain of /Parent nodes whose root fails to load: before the fix every level loaded its parent twice (2^depth loads)
fn w_failing_chain_time() -> bool {
    use pdf::object::*;
    let mut slow = false;
    for n in [8u64, 12, 16, 20] {
        let mut objs: Vec<(u64, String)> = vec![(1, "<< /Type /Catalog /Pages 2 0 R >>".into()), (2, "42".into())];
        for k in 1..n {
            objs.push((k + 2, format!("<< /Type /Pages /Parent {} 0 R /Count 1 /Kids [{} 0 R] >>", k + 1, k + 3)));
        }
        objs.push((n + 2, format!("<< /Type /Page /Parent {} 0 R /MediaBox [0 0 10 10] >>", n + 1)));
        let refs: Vec<(u64, &str)> = objs.iter().map(|(i, s)| (*i, s.as_str())).collect();
        let data = mkpdf(&refs, "");
        // open without the catalog's page tree being loaded: use the storage directly
        let storage = pdf::file::Storage::with_cache(data, pdf::object::ParseOptions::strict(), pdf::file::NoCache, pdf::file::NoCache, pdf::file::NoLog);
        let mut storage = match storage { Ok(s) => s, Err(e) => { println!("open failed: {}", e); return false; } };
        let _ = storage.load_storage_and_trailer();
        let r = storage.resolver();
        let t0 = std::time::Instant::now();
        let leaf = r.get::<PagesNode>(Ref::from_id(n + 2));
        let dt = t0.elapsed();
        println!("depth {:2}: load of the innermost node -> {} in {:?}", n, if leaf.is_ok() { "Ok" } else { "Err" }, dt);
        slow |= dt.as_millis() > 2000;
    }
    slow
}
fn w_crypt_keylen() -> bool {
    let enc = "<< /Filter /Standard /V 2 /R 3 /Length 0 /P -1 /O (01234567890123456789012345678901) /U (01234567890123456789012345678901) >>";
    let data = mkpdf(&[(1, CATALOG), (2, PAGES), (3, PAGE), (9, enc)], "/Encrypt 9 0 R /ID [(abcdefghijklmnop) (abcdefghijklmnop)]");
    let f = pdf::file::FileOptions::uncached().load(data);
    println!("/Encrypt with /V 2 /Length 0 -> {:?}", short(f.map(|_| ())));
    false
}

/// C09: several saves in a row, with a reload in between, on a document WITHOUT an /Info dictionary
fn w_save_reload_save() -> bool {
    use pdf::file::FileOptions;
    use pdf::object::*;
    let data = mkpdf(&[(1, CATALOG), (2, PAGES), (3, PAGE), (4, "132")], "");
    let mut file = FileOptions::uncached().load(data).unwrap();
    file.update(PlainRef { id: 4, gen: 0 }, 777i32).unwrap();
    let save = |file: &mut pdf::file::File<Vec<u8>, _, _, _>, tag: &str| -> std::result::Result<Vec<u8>, String> {
        let path = std::env::temp_dir().join(format!("verif_w_srs_{}.pdf", tag));
        let r = file.save_to(&path).map_err(|e| e.to_string());
        let d = std::fs::read(&path).unwrap_or_default();
        let _ = std::fs::remove_file(&path);
        r.map(|_| d)
    };
    let first = save(&mut file, "1");
    println!("first save: {:?}", first.as_ref().map(|d| d.len()).map_err(|e| e.chars().take(80).collect::<String>()));
    let first = match first { Ok(d) => d, Err(_) => return true };
    let mut re = match FileOptions::uncached().load(first) {
        Ok(f) => f,
        Err(e) => { println!("reload failed: {}", e); return true }
    };
    re.update(PlainRef { id: 4, gen: 0 }, 888i32).unwrap();
    let second = save(&mut re, "2");
    println!("second save (after reload + update): {:?} (expected Ok)", second.as_ref().map(|d| d.len()).map_err(|e| e.chars().take(100).collect::<String>()));
    let second = match second { Ok(d) => d, Err(_) => return true };
    let r2 = FileOptions::uncached().load(second).map_err(|e| e.to_string())
        .and_then(|f| f.resolver().resolve(PlainRef { id: 4, gen: 0 }).map(|p| format!("{:?}", p)).map_err(|e| e.to_string()));
    println!("reload of the second save: {:?} (expected Ok(\"Integer(888)\"))", r2);
    !matches!(r2, Ok(ref s) if s == "Integer(888)")
}

fn main() {
    let all: Vec<(&str, fn() -> bool)> = vec![
        ("lzw_predictor", w_lzw_predictor),
        ("bits_per_component", w_bits_per_component),
        ("tiff_predictor", w_tiff_predictor),
        ("hex_odd", w_hex_odd),
        ("a85_ws", w_a85_ws),
        ("cache_image", w_cache_image),
        ("cache_err_type", w_cache_err_type),
        ("update_stale", w_update_stale),
        ("conc_spurious_recursive", w_conc_spurious_recursive),
        ("conc_assert_poison", w_conc_assert_poison),
        ("conc_deadlock", w_conc_deadlock),
        ("save_prefix", w_save_prefix),
        ("save_reload_save", w_save_reload_save),
        ("update_compressed", w_update_compressed),
        ("failed_save_retry", w_failed_save_retry),
        ("name_escape", w_name_escape),
        ("string_eol", w_string_eol),
        ("current_point_after_close", w_current_point_after_close),
        ("length_in_objstm", w_length_in_objstm),
        ("action_goto", w_action_goto),
        ("font_other", w_font_other),
        ("import_cycle", w_import_cycle),
        ("import_rcref_unwrap", w_import_rcref_unwrap),
        ("import_colorspace", w_import_colorspace),
        ("import_shading", w_import_shading),
        ("ref_chain", w_ref_chain),
        ("nametree_cycle", w_nametree_cycle),
        ("devicen_cycle", w_devicen_cycle),
        ("appearance_cycle", w_appearance_cycle),
        ("function_domain", w_function_domain),
        ("function_dims", w_function_dims),
        ("flate_geometry", w_flate_geometry),
        ("fax_zero_columns", w_fax_zero_columns),
        ("fax_capacity", w_fax_capacity),
        ("widths_empty_group", w_widths_empty_group),
        ("widths_huge_cid", w_widths_huge_cid),
        ("descendant_empty", w_descendant_empty),
        ("encoding_diff", w_encoding_diff),
        ("page_count_overflow", w_page_count_overflow),
        ("objstm_offset_overflow", w_objstm_offset_overflow),
        ("crypt_keylen", w_crypt_keylen),
        ("failing_chain_time", w_failing_chain_time),
        ("deep_parent_chain", w_deep_parent_chain),
        ("colorspace_function_write", w_colorspace_function_write),
        ("ps_roll", w_ps_roll),
        ("ps_parse", w_ps_parse),
        ("sampled_short", w_sampled_short),
        ("sampled_domain", w_sampled_domain),
        ("sampled_size_zero", w_sampled_size_zero),
        ("string_continuations", w_string_continuations),
        ("jbig2_globals_cycle", w_jbig2_globals_cycle),
        ("descendant_fonts_cycle", w_descendant_fonts_cycle),
        ("xref_offset_overflow", w_xref_offset_overflow),
    ];
    let want: Vec<String> = std::env::args().skip(1).collect();
    for (n, f) in all {
        if want.is_empty() || want.iter().any(|w| w == n) {
            println!("== {}", n);
            let r = std::panic::catch_unwind(f);
            match r {
                Ok(true) => println!("REPRODUCED {}", n),
                Ok(false) => println!("NOT-REPRODUCED {}", n),
                Err(_) => println!("REPRODUCED {} (panic)", n),
            }
        }
    }
}
