//! Triage harness (NOT part of any registered check): reproduces the genuine defects recorded in
//! /verif/known_findings.json against the real crate.  `cargo run --offline -- <name>`; each
//! witness prints what it observed and `REPRODUCED` / `NOT-REPRODUCED`.
use pdf::enc::*;

fn w_lzw_predictor() -> bool {
    // two rows of 4 bytes, PNG predictor 12 (Up filter on every row), LZW with EarlyChange 0
    let raw: Vec<u8> = vec![2, 1, 2, 3, 4, 2, 1, 1, 1, 1];
    let want: Vec<u8> = vec![1, 2, 3, 4, 2, 3, 4, 5];
    let mut comp = vec![];
    weezl::encode::Encoder::new(weezl::BitOrder::Msb, 9).into_stream(&mut comp).encode_all(&raw[..]).status.unwrap();
    let params = LZWFlateParams { predictor: 12, n_components: 1, bits_per_component: 8, columns: 4, early_change: 0 };
    let lzw = decode(&comp, &StreamFilter::LZWDecode(params.clone())).unwrap();
    let mut z = libflate::zlib::Encoder::new(Vec::new()).unwrap();
    std::io::Write::write_all(&mut z, &raw).unwrap();
    let zdata = z.finish().into_result().unwrap();
    let fl = decode(&zdata, &StreamFilter::FlateDecode(params)).unwrap();
    println!("flate+pred12 -> {:?}; lzw+pred12 -> {:?}; expected {:?}", fl, lzw, want);
    fl == want && lzw != want
}

fn w_bits_per_component() -> bool {
    // one row, 2 columns of 16-bit samples, Sub filter: bytes-per-pixel is 2, not 1
    let raw: Vec<u8> = vec![1, 0x01, 0x02, 0x01, 0x01];
    let want: Vec<u8> = vec![0x01, 0x02, 0x02, 0x03];
    let mut z = libflate::zlib::Encoder::new(Vec::new()).unwrap();
    std::io::Write::write_all(&mut z, &raw).unwrap();
    let zdata = z.finish().into_result().unwrap();
    let params = LZWFlateParams { predictor: 15, n_components: 1, bits_per_component: 16, columns: 2, early_change: 1 };
    let got = decode(&zdata, &StreamFilter::FlateDecode(params));
    println!("16-bit Sub row -> {:?}; expected {:?}", got, want);
    got.map(|g| g != want).unwrap_or(true)
}

fn w_tiff_predictor() -> bool {
    // TIFF predictor 2: each sample is the difference to its left neighbour
    let raw: Vec<u8> = vec![1, 1, 1, 1];
    let want: Vec<u8> = vec![1, 2, 3, 4];
    let mut z = libflate::zlib::Encoder::new(Vec::new()).unwrap();
    std::io::Write::write_all(&mut z, &raw).unwrap();
    let zdata = z.finish().into_result().unwrap();
    let params = LZWFlateParams { predictor: 2, n_components: 1, bits_per_component: 8, columns: 4, early_change: 1 };
    let got = decode(&zdata, &StreamFilter::FlateDecode(params)).unwrap();
    println!("TIFF predictor row -> {:?}; expected {:?}", got, want);
    got != want
}

fn w_hex_odd() -> bool {
    let got = decode(b"41 4>", &StreamFilter::ASCIIHexDecode).unwrap();
    println!("ASCIIHex '41 4>' -> {:?}; expected [0x41, 0x40]", got);
    got != vec![0x41, 0x40]
}

fn w_a85_ws() -> bool {
    let enc = b"BOu!r\x0cD]j7B\x00Ebo80~>";
    let got = decode(enc, &StreamFilter::ASCII85Decode);
    println!("ASCII85 with FF/NUL white-space -> {:?}; expected Ok(\"hello world!\")", got.as_ref().map(|v| String::from_utf8_lossy(v).to_string()));
    got.map(|g| g != b"hello world!").unwrap_or(true)
}

fn main() {
    let all: Vec<(&str, fn() -> bool)> = vec![
        ("lzw_predictor", w_lzw_predictor),
        ("bits_per_component", w_bits_per_component),
        ("tiff_predictor", w_tiff_predictor),
        ("hex_odd", w_hex_odd),
        ("a85_ws", w_a85_ws),
    ];
    let want: Vec<String> = std::env::args().skip(1).collect();
    for (n, f) in all {
        if want.is_empty() || want.iter().any(|w| w == n) {
            println!("== {}", n);
            let r = std::panic::catch_unwind(f);
            match r {
                Ok(true) => println!("REPRODUCED {}", n),
                Ok(false) => println!("NOT-REPRODUCED {}", n),
                Err(_) => println!("REPRODUCED {} (panic)", n),
            }
        }
    }
}
